"""C06 — per-agent snapshots (state_<agent>.json) round-trip the state they were written from.

Sub-checks
  roundtrip   Hypothesis: a history of 1..3 generations in ONE snapshot directory.  Each generation builds a state
              (store double of one of the exporter's shapes + a raw GEL graph, either new or "the state loaded in the
              previous generation + raw edits"), then runs the chain  write -> load(fresh) -> write -> load(fresh) ->
              write  under a validated config (t4.weight_min/max), with the directory salted between the steps.
  discovery   Hypothesis: a directory holding 0..3 real snapshot bodies (explicit, distinct mtimes) salted with sidecars,
              _make_tmp-shaped temp names, sidecar temps, .zst / ~ / .bak files and sub-directories that all carry NEWER
              mtimes; the three discovery entry points must land on the newest real body (or on nothing).

Oracle (roundtrip) — reference model computed here, never read back from the code under test:
  * written body: schema_version == "v1"; `<body>.meta` sidecar is JSON carrying schema_version "v1";
    version_etag is the one passed; store section == the reference export of the store double;
    gel.nodes == {id: node}; gel.edges has exactly one record per UNORDERED endpoint pair, keyed "min→max", whose weight
    is round6(clamp(w, lo, hi)) (round6 = exact decimal half-even of the double, computed with `decimal`; ±inf clamp to
    the bound; a NaN weight is only required to come out finite), whose src/dst/rel/updated_at/attrs are those of the
    input record, "id" == key.  Where several records describe one pair the docs do not say which survives: the
    survivor must be the sanitised form of ONE of them.
  * after load_latest_snapshot into a fresh state: loaded True, path == the body, version_etag == str(written),
    store double content == written export (NaN-aware), graph edges/nodes == what the body holds == the reference.
  * second and third body are byte-identical to the first; the second loaded state equals the first loaded state.
Oracle (discovery): _pick_latest_snapshot_path / load_latest_snapshot / get_latest_snapshot_info return the real body
with the largest mtime — never a salt — and the restored version is that body's.

Hardening round (dimensions that used to be pinned; every one has a label and a mutant in mutants/C06/):
  * chains: `mode: chain` = one agent writing a run of 3..6 versions (counter crossing 9->10 / 99->100, standing still, going
    back; styles 9 / v9 / 009 / 1.9), each link = write -> load(fresh) -> write, optionally keeping the SAME mtime (`freeze`)
    so consecutive bodies may agree in path, mtime and size; another agent may write in between.
  * the loader's half of the symmetric sanitisation: `foreign` replaces the body just written by the same body whose gel
    section is RAW (or sits under the legacy `graph` key); the loaded state and the snapshot taken from it must be those of
    the genuine body.  Per-generation bounds (`lo`/`hi` in a gen): the previous body is first loaded under the NEW bounds
    and must come out clamped to them.
  * config leaves next to the bounds that must not matter (graph.update.clamp_*, graph.decay.floor, graph.enabled,
    perf.snapshots.* with perf on/off, t4.snapshot_every_n_turns), bounds given as text, ctx exposing only .cfg or only .config,
    $CLEMATIS_SNAPSHOTS_DIR (legacy) alone or next to the primary variable.
  * states: graph only at state.gel / empty state.graph + state.gel / state.graph + a stale state.gel; fresh states that carry
    version None / the same / a LARGER version; delta lists as dataclasses and dicts; int target ids in weight maps; graphs,
    meta histories and weight maps beyond 64/128 entries; sub-second mtime differences; agent ids such as 'x.json', 'a.meta',
    '9' / '10'; everything handed to / received from the API is edited in place afterwards (no sharing with later loads).
  * discovery: real bodies of the two other documented families (snap_<n>.json across a digit boundary, header+payload files
    of write_snapshot_auto incl. deltas, compression requested, version only in the header); every file written must have
    its sidecar with the marker.
  * an exception escaping write_snapshot / load_latest_snapshot / discovery on an input of the domain is a violation.
  * the mtime the WRITER leaves (seeded C06-f): `clock: natural` histories never os.utime a real body (a probe file tells when
    the filesystem clock has passed the newest body; A,B,A agent patterns on purpose); discovery replaces the OLDEST body
    through write_snapshot with its mtime untouched -- the snapshot written last must be the one found.
"""
from __future__ import annotations

import contextlib
import copy
import functools
import json
import math
import os
from decimal import Decimal, ROUND_HALF_EVEN, localcontext
from types import SimpleNamespace

from harness.runner import Sub, Violation, run_hypothesis, digest, jsonable

LEVEL = "exploration"
RULE = ("roundtrip: Hypothesis-built history of 1..3 generations (agent, version, validated t4.weight_min/max, store "
        "double shape export_state/.w map/neither/absent, GEL graph with nodes as dict|list and edges as list|dict under "
        "canonical/reversed/arbitrary keys, both orientations, repeated pairs with different rel, weights "
        "finite/needs-rounding/out-of-range/int/bool/NaN/+-inf/missing, unicode ids, meta well-shaped or junk); every "
        "generation runs write->load->write->load->write in a salted directory. NON-TRIVIAL = at least one edge whose "
        "stored form differs from its input form: weight needs clamping, weight needs rounding to 6 decimals, weight is "
        "non-finite, or the record is listed under a non-canonical key/orientation (re-keying). Distinct = digest of the "
        "whole history. One case in six is a CHAIN (one agent, 3..6 versions walking over 9->10 / 99->100 / back / "
        "standing still, optional frozen mtime); generations may change the bounds before the load, replace the body by its "
        "raw 'foreign' form, keep the graph at state.gel, and run under distractor config leaves / ctx shapes / env modes. "
        "discovery: bodies of all three documented families (state_*, snap_<n>, snapshot-*.full/delta.json). NON-TRIVIAL = at least one sidecar- or temp-shaped salt file with an mtime newer than "
        "the newest real body (or no real body at all while such salts exist). Distinct = digest of the directory plan.")
ASSUMPTIONS = [
    "ids, rels and agent ids are non-empty str; agent ids are valid file-name components; ids never contain the arrow "
    "U+2192 (the documented canonical key 'src→dst' is itself ambiguous for such ids)",
    "edge records are well-formed as the GEL layer writes them (dict with src, dst, numeric or missing weight); a record "
    "with a non-numeric weight or a non-dict meta is outside the domain and not generated",
    "round to six decimals = exact decimal round-half-even of the binary double (what `decimal` computes); zero signs "
    "are not distinguished by the reference (byte identity of bodies still is)",
    "docs are silent on (a) which of several records of one unordered pair survives, (b) the replacement of a NaN "
    "weight, (c) junk-shaped meta fields and meta.last_update: for these only finiteness / membership / round-trip "
    "stability is asserted",
    "mtimes of all real bodies are set explicitly (distinct, increasing in write order) so 'latest' is well defined; "
    "salts get strictly newer mtimes; in `clock: natural` histories (a third) and in discovery's natural-overwrite step the "
    "harness does NOT set them: every write is preceded by a wait until a probe file's mtime exceeds the newest body's, so a "
    "writer that stamps the file when it writes it yields strictly increasing mtimes",
    "version_etag is a str (apply.py only ever passes str); write arguments that are not state (turn, applied, deltas) "
    "are the same for the three writes of a generation",
    "'latest' across file families is made unambiguous by construction: snap_<n> bodies are newer than state_* bodies, "
    "these newer than snapshot-* files, and a larger <n> is a newer file, so the documented family order and plain mtime "
    "order agree; mtimes differ by at least 1 ms",
    "meta.last_update carried by the loader from a foreign body is ignored when two loaded states are compared",
    "every file write_snapshot_auto returns must be readable back (read_snapshot(path=...) == the payload) with the modules "
    "installed HERE: zstandard is not, so compression='zstd' has to degrade to something readable (fix 9f474a1); with the "
    "module present a '.json.zst' file is read back too but is not a discovery candidate (discovery lists *.json only)",
    "configs are validated ones (world.validated_cfg): graph.weight_min/max and graph.decay.epsilon_prune, which the "
    "snapshot code would read, are rejected by the validator and therefore never set",
    "OSError ENOSPC/EMFILE/ENFILE/ENOMEM/EDQUOT and MemoryError from the API are harness errors; any other exception "
    "escaping write_snapshot / load_latest_snapshot / discovery / write_snapshot_auto is a violation",
]

FID_NAN = "snapshot-nan-weight-escapes-clamp"
FID_IDS = "snapshot-edge-id-separator-collision"

ARROW = "→"


# =====================================================================================================
# small helpers
# =====================================================================================================

def dec(x):
    """Inverse of runner.jsonable for floats (replay files)."""
    if isinstance(x, dict):
        if set(x.keys()) == {"__float__"}:
            return float(x["__float__"])
        return {k: dec(v) for k, v in x.items()}
    if isinstance(x, list):
        return [dec(v) for v in x]
    return x


def same(a, b) -> bool:
    """Deep equality where NaN == NaN and bool is not a number."""
    if isinstance(a, float) and isinstance(b, float) and a != a and b != b:
        return True
    if isinstance(a, bool) != isinstance(b, bool):
        return False
    if isinstance(a, dict):
        if not isinstance(b, dict) or set(a.keys()) != set(b.keys()):
            return False
        return all(same(a[k], b[k]) for k in a)
    if isinstance(a, (list, tuple)):
        if not isinstance(b, (list, tuple)) or len(a) != len(b):
            return False
        return all(same(x, y) for x, y in zip(a, b))
    if isinstance(b, (dict, list, tuple)):
        return False
    return a == b


def short(x, n=300):
    s = json.dumps(jsonable(x), ensure_ascii=False, sort_keys=True)
    return s if len(s) <= n else s[:n] + "..."


def ref_round6(x: float) -> float:
    with localcontext() as c:
        c.prec = 400
        return float(Decimal(x).quantize(Decimal("0.000001"), rounding=ROUND_HALF_EVEN))


def ref_weight(raw, lo, hi):
    """Reference stored weight; None = unspecified by the docs (NaN input): only finiteness is required."""
    x = 0.0 if raw is MISSING else float(raw)
    if x != x:
        return None
    c = lo if x < lo else hi if x > hi else x
    return ref_round6(c)


class _Missing:
    def __repr__(self):
        return "<missing>"


MISSING = _Missing()


def canon_pair(a, b):
    return (a, b) if a <= b else (b, a)


def canon_key(a, b):
    s, d = canon_pair(a, b)
    return f"{s}{ARROW}{d}"


# =====================================================================================================
# store doubles (the three shapes _export_store_for_snapshot supports) + reference export
# =====================================================================================================

class ExportStore:
    """export_state()/import_state() shape."""

    def __init__(self, data=None, with_w=False):
        self.data = data
        self.imported = 0
        if with_w:
            self.w = {("node", "decoy", "weight"): 9.0}  # must be ignored: export_state wins

    def export_state(self):
        return copy.deepcopy(self.data)

    def import_state(self, obj):
        self.imported += 1
        self.data = obj


class WStore:
    """`.w` weight map keyed (kind, id, attr)."""

    def __init__(self, items=()):
        self.w = {}
        for k, i, a, v in items:
            self.w[(k, i, a)] = v


class BareStore:
    """neither shape: nothing to export."""

    def __init__(self):
        self.touched = False


def make_store(spec):
    kind = spec["kind"]
    if kind == "export":
        return ExportStore(copy.deepcopy(spec["data"]), with_w=bool(spec.get("with_w")))
    if kind == "w":
        return WStore(spec["items"])
    if kind == "bare":
        return BareStore()
    if kind == "real":
        from clematis.graph.store import InMemoryGraphStore
        return InMemoryGraphStore()
    return None  # "absent": the state has no store at all


def fresh_store(spec):
    kind = spec["kind"]
    if kind == "export":
        return ExportStore(None, with_w=bool(spec.get("with_w")))
    if kind == "w":
        return WStore()
    if kind == "bare":
        return BareStore()
    if kind == "real":
        from clematis.graph.store import InMemoryGraphStore
        return InMemoryGraphStore()
    return None


def ref_store_export(spec):
    """What the `store` section of the body must be."""
    kind = spec["kind"]
    if kind == "export":
        return {"state": spec["data"]}
    if kind == "w":
        seen = {}
        for k, i, a, v in spec["items"]:  # dict semantics: a repeated key keeps its first position, last value
            seen[(k, i, a)] = v
        return {"weights": [{"target_kind": str(k), "target_id": str(i), "attr": str(a), "value": float(v)}
                            for (k, i, a), v in seen.items()]}
    return {}


def store_content(store, spec):
    """Observable content of a store double, in the shape of ref_store_export."""
    kind = spec["kind"]
    if kind == "export":
        return {"state": store.data}
    if kind == "w":
        return {"weights": [{"target_kind": k[0], "target_id": k[1], "attr": k[2], "value": v} for k, v in store.w.items()]}
    return {}


# =====================================================================================================
# reference model of the documented GEL sanitisation
# =====================================================================================================

def edge_records(graph):
    """Input edge records in listing order: [(listing_key_or_None, record)]."""
    if not isinstance(graph, dict):
        return []
    e = graph.get("edges")
    if isinstance(e, dict):
        return [(k, r) for k, r in e.items()]
    if isinstance(e, list):
        return [(None, r) for r in e]
    return []


def ref_edge(rec, lo, hi):
    s, d = rec["src"], rec["dst"]
    return {"src": s, "dst": d, "rel": rec.get("rel", "coact"), "weight": ref_weight(rec.get("weight", MISSING), lo, hi),
            "updated_at": rec.get("updated_at"), "attrs": ref_attrs(rec.get("attrs", {})), "id": canon_key(s, d)}


def ref_attrs(a):
    """Edge attrs as the snapshot writer documents them (fix 463dceb): a mapping whose `coact` counter is an int
    (non-numeric -> 0); anything that is not a mapping becomes {}."""
    if not isinstance(a, dict):
        return {}
    out = dict(a)
    if "coact" in out:
        try:
            out["coact"] = int(out["coact"])
        except Exception:
            out["coact"] = 0
    return out


def ref_gel(graph, lo, hi):
    """-> (nodes: {id: node}, pairs: {canon_key: [candidate records]})."""
    nodes = {}
    if isinstance(graph, dict):
        gn = graph.get("nodes")
        if isinstance(gn, dict):
            nodes = {str(k): v for k, v in gn.items()}
        elif isinstance(gn, list):
            nodes = {str(nd["id"]): nd for nd in gn}
    pairs = {}
    for _k, rec in edge_records(graph):
        pairs.setdefault(canon_key(rec["src"], rec["dst"]), []).append(ref_edge(rec, lo, hi))
    return nodes, pairs


def edge_matches(actual, cand) -> bool:
    if not isinstance(actual, dict) or set(actual.keys()) != set(cand.keys()):
        return False
    for k, v in cand.items():
        if k == "weight":
            w = actual["weight"]
            if isinstance(w, bool) or not isinstance(w, float):
                return False
            if v is None:
                if not math.isfinite(w):
                    return False
            elif w != v:
                return False
        elif not same(actual[k], v):
            return False
    return True


def edge_classes(graph, lo, hi):
    """Labels describing what the sanitiser has to do on this graph; (labels, nontrivial)."""
    labels = set()
    nt = False
    recs = edge_records(graph)
    pairs = {}
    for key, rec in recs:
        s, d = rec["src"], rec["dst"]
        ck = canon_key(s, d)
        pairs.setdefault(ck, []).append(rec)
        w = rec.get("weight", MISSING)
        if w is MISSING:
            labels.add("w:missing")
            x = 0.0
        else:
            if isinstance(w, bool):
                labels.add("w:bool")
            elif isinstance(w, int):
                labels.add("w:int")
            x = float(w)
        if x != x:
            labels.add("w:nan")
            nt = True
        elif x in (math.inf, -math.inf):
            labels.add("w:inf")
            nt = True
        else:
            if x < lo:
                labels.add("w:clamp-lo")
                nt = True
            elif x > hi:
                labels.add("w:clamp-hi")
                nt = True
            elif x in (lo, hi):
                labels.add("w:on-bound")
            c = lo if x < lo else hi if x > hi else x
            if ref_round6(c) != c:
                labels.add("w:needs-round")
                nt = True
            elif lo <= x <= hi:
                labels.add("w:exact-in-range")
        if s > d:
            labels.add("edge:reversed-orientation")
            nt = True
        if s == d:
            labels.add("edge:self-loop")
        if key is not None and key != ck:
            labels.add("edge:noncanonical-key")
            nt = True
        if key is None:
            nt = True  # a list has no keys at all: every record has to be keyed
        if not (s.isascii() and d.isascii()):
            labels.add("edge:unicode-id")
        if "_" in s or "_" in d or "_" in str(rec.get("rel", "")):
            labels.add("edge:underscore-id")
    if any(len(v) > 1 for v in pairs.values()):
        labels.add("edge:repeated-pair")
        if any(len({str(r.get("rel", "coact")) for r in v}) > 1 for v in pairs.values()):
            labels.add("edge:multi-rel-pair")
    if recs:
        labels.add("edges:some")
    else:
        labels.add("edges:none")
    return labels, nt


# =====================================================================================================
# strategies
# =====================================================================================================

IDS = ["a", "b", "c", "d", "A", "B", "10", "9", "é", "é", "Ä", "日本", "😀", "n:1", "c::a", "a b", "a.b", "ep-6",
       "a_b", "a__b", "b__c", "c__d", "_", "__", "a_", "_b", "x__coact", "\ufb01", "\u00df", "fi", "ss"]
PLAIN_IDS = ["a", "b", "c", "d", "A", "é", "Ä", "日本", "n:1", "c::a", "ep-6", "10", "9"]
RELS = ["coact", "concept", "r", "é", "x__y", "y"]
AGENTS = ["A", "B", "agent-1", "Ä", "日本", "a b", "x.y", "é", "AgentA", "a_b",
          # names that look like what discovery has to refuse / that sort differently as text and as numbers
          "a", "9", "10", "x.json", "a.meta", "a.json.meta", "snap_1", "tmp", "state_", "e\u0301"]
VERSIONS = ["1", "2", "17", "0", "v1", "é-3", "", "abc123", "00", "-1", "1.0", "None", "9", "10", "99", "100"]
BOUNDS = [(-1.0, 1.0), (-1.0, 1.0), (-1.0, 1.0), (0.0, 1.0), (-1.0, 0.0), (0.2, 0.8), (-0.8, -0.2), (-0.5, 0.5),
          (0.1234567, 0.7654321), (-1, 1), (0.999999, 1.0), (-0.0000005, 0.0000005), (-0.25, 0.3333333333333333),
          (0.5, 1), (-1, -0.0000015), ("-0.5", "0.5"), ("0.25", 1)]
LOOKALIKES = [
    [("a__b", "c", None), ("a", "b__c", None)], [("b__c", "d", "r"), ("b", "c__d", "r")], [("a_", "b", None), ("a", "_b", None)],
    [("a", "b__x", "y"), ("a", "b", "x__y")], [("a", "ab", None), ("aa", "b", None)], [("a b", "c", None), ("a", "b c", None)],
    [("a.b", "c", "r"), ("a", "b.c", "r")], [("a:b", "c", None), ("a", "b:c", None)], [("é", "e", None), ("é", "e", None)],
    [("a", "b", "coact"), ("a", "b__coact", None)],
]
SUFFIX_ALPHABET = "abcdefghijklmnopqrstuvwxyz0123456789_"  # tempfile's candidate-name alphabet


def _st():
    from hypothesis import strategies as st
    return st


@functools.lru_cache(maxsize=256)  # building a composite strategy costs an inspect.getsource each time
def weights_strategy(lo, hi):
    st = _st()
    flo, fhi = float(lo), float(hi)
    mid = (flo + fhi) / 2.0
    return st.one_of(
        st.sampled_from([0.0, 0.5, -0.5, 0.25, 1.0, -1.0, 0.123456, 0.3, mid]),
        st.sampled_from([0.1234567, 1 / 3, -2 / 3, 4e-7, 5e-7, 0.9999996, 1e-7, -1e-9, 0.1 + 0.2, 0.0000015, 0.5000005,
                         2.5e-6, -0.1234565, 0.7071067811865476]),
        st.floats(min_value=-1.5, max_value=1.5, allow_nan=False),
        st.floats(min_value=-1.5, max_value=1.5, allow_nan=False).map(lambda x: round(x, 6)),
        st.sampled_from([1.5, -1.5, 1.0000001, -1.0000001, 1e9, -1e300, 1.7976931348623157e308, 5e-324]),
        st.sampled_from([flo, fhi, math.nextafter(flo, -math.inf), math.nextafter(fhi, math.inf),
                         math.nextafter(flo, math.inf), math.nextafter(fhi, -math.inf), flo - 1e-7, fhi + 1e-7,
                         flo - 0.25, fhi + 0.25]),
        st.sampled_from([0, 1, -1, 2, -7, 10 ** 12]),
        st.booleans(),
        st.sampled_from([math.nan, math.inf, -math.inf]),
        st.just("__missing__"),
    )


@functools.lru_cache(maxsize=256)  # building a composite strategy costs an inspect.getsource each time
def json_leaf():
    st = _st()
    return st.one_of(st.none(), st.booleans(), st.integers(-3, 3), st.sampled_from([0.5, -1.25, 1e-7, 3.0, math.nan, math.inf]),
                     st.sampled_from(["", "x", "é", "a→b", "日本"]))


@functools.lru_cache(maxsize=256)  # building a composite strategy costs an inspect.getsource each time
def json_value(max_leaves=6):
    st = _st()
    keys = st.sampled_from(["k", "é", "", "a.b", "w", "nodes", "n:1"])
    return st.recursive(json_leaf(), lambda ch: st.one_of(st.lists(ch, max_size=3), st.dictionaries(keys, ch, max_size=3)),
                        max_leaves=max_leaves)


@functools.lru_cache(maxsize=256)  # building a composite strategy costs an inspect.getsource each time
def store_strategy():
    st = _st()

    @st.composite
    def stores(draw):
        kind = draw(st.sampled_from(["export", "export", "w", "w", "w", "bare", "real", "absent"]))
        if kind == "export":
            style = draw(st.sampled_from(["weights", "json", "json", "scalar"]))
            if style == "weights":
                data = {"weights": [{"target_kind": draw(st.sampled_from(["node", "edge"])), "target_id": draw(st.sampled_from(IDS)),
                                     "attr": "weight", "value": draw(st.sampled_from([0.5, -1.0, 1, math.nan, 0.1234567, -math.inf]))}
                                    for _ in range(draw(st.integers(0, 4)))]}
            elif style == "json":
                data = draw(st.dictionaries(st.sampled_from(["graphs", "é", "w", "", "meta"]), json_value(), max_size=3))
            else:
                data = draw(json_leaf())
            return {"kind": "export", "data": data, "with_w": draw(st.sampled_from([False, False, True]))}
        if kind == "w":
            n = draw(st.integers(0, 6))
            items = []
            if draw(st.integers(0, 11)) == 0:  # a weight map larger than any cap the engine knows elsewhere
                items = [["node" if j % 3 else "edge", f"n{j}", "weight" if j % 2 else "bias", (j % 17) / 16.0 - 0.5]
                         for j in range(draw(st.sampled_from([70, 130, 300])))]
            for _ in range(n):
                # ids 7 / 0 / -3 are ints whose text collides with no str id of the pool: the exporter documents str(target_id)
                items.append([draw(st.sampled_from(["node", "edge", "é"])), draw(st.sampled_from(IDS + [ARROW.join(["a", "b"]), 7, 0, -3])),
                              draw(st.sampled_from(["weight", "bias", "é"])),
                              draw(st.one_of(st.sampled_from([0.5, -0.25, 1.0, 0.1234567891, 1e-9, -3.5, 1e300]),
                                             st.floats(allow_nan=False, allow_infinity=False, width=64),
                                             st.sampled_from([0, 1, -2, 7, 10 ** 15]), st.booleans(),
                                             st.sampled_from([math.nan, math.inf, -math.inf])))])
            return {"kind": "w", "items": items}
        return {"kind": kind}

    return stores()


@functools.lru_cache(maxsize=256)  # building a composite strategy costs an inspect.getsource each time
def graph_strategy(lo, hi, max_edges):
    st = _st()
    wts = weights_strategy(lo, hi)
    attrs = st.one_of(st.sampled_from([{}, {}, {"coact": 3, "last_seen_turn": None}, {"coact": 0, "last_seen_turn": 7},
                                       {"coact": 2.0, "last_seen_turn": 1}, {"coact": "5"}, {"coact": True}, {"coact": None}, {"coact": 2.7},
                                       {"é": [1, 2.5, None]}, {"x": math.nan}, {"kind": "concept"}, "__missing__"]),
                      st.dictionaries(st.sampled_from(["k", "é", ""]), json_leaf(), max_size=2))
    updated = st.sampled_from([None, None, "2025-01-01T00:00:00Z", 5, "", "__missing__"])

    @st.composite
    def graphs(draw):
        style = draw(st.sampled_from(["raw", "raw", "raw", "gel", "none"]))
        if style == "none":
            return None
        if style == "gel" and draw(st.integers(0, 5)) == 0:
            # a graph larger than any cap the engine knows elsewhere (128 deltas, 64 churn edges, top-64 observe ...)
            k = draw(st.sampled_from([70, 130, 200]))
            wpool = draw(st.lists(wts, min_size=3, max_size=3))
            ids = [f"n{j}" for j in range(k)]
            edges = {}
            for j in range(k):
                a, b = canon_pair(ids[j], ids[(j * 7 + 1) % k])
                w = wpool[j % 3]
                edges[canon_key(a, b)] = {"id": canon_key(a, b), "src": a, "dst": b, "rel": "coact", "updated_at": None,
                                          "weight": 0.0 if isinstance(w, (str, bool, int)) else float(w),
                                          "attrs": {"coact": j, "last_seen_turn": j}}
            hist = [{"nodes": [ids[j], ids[(j + 1) % k]], "size": 2, "avg_w": 0.25, "signature": f"{j}"} for j in range(k)]
            return {"nodes": {i: {"id": i, "label": None, "attrs": {}} for i in ids}, "edges": edges,
                    "meta": {"schema": "v1.1", "merges": hist, "splits": hist[: k // 2], "promotions": hist[:3],
                             "concept_nodes_count": k, "edges_count": len(edges)}}
        pool_src = IDS if draw(st.integers(0, 3)) else PLAIN_IDS
        pool = draw(st.lists(st.sampled_from(pool_src), min_size=1, max_size=5, unique=True))
        # ---------- edges
        n = draw(st.integers(0, max_edges))
        recs = []
        for _ in range(n):
            if recs and draw(st.integers(0, 4)) == 0:
                base = draw(st.sampled_from(recs))  # a second record for an existing unordered pair
                s, d = (base["src"], base["dst"]) if draw(st.booleans()) else (base["dst"], base["src"])
            else:
                s, d = draw(st.sampled_from(pool)), draw(st.sampled_from(pool))
            if style == "gel":
                s, d = canon_pair(s, d)
            rec = {"src": s, "dst": d}
            rel = draw(st.sampled_from(RELS + ["coact", "coact", "__missing__"])) if style == "raw" else draw(st.sampled_from(["coact", "concept"]))
            if rel != "__missing__":
                rec["rel"] = rel
            w = draw(wts)
            if style == "gel":  # the GEL layer only ever stores float weights
                w = 0.0 if isinstance(w, (str, bool, int)) else float(w)
            if not isinstance(w, str):  # the str marker means: record carries no weight key
                rec["weight"] = w
            u = draw(updated) if style == "raw" else None
            if u != "__missing__":
                rec["updated_at"] = u
            a = draw(attrs) if style == "raw" else draw(st.sampled_from([{}, {"coact": 2, "last_seen_turn": 4}]))
            if a != "__missing__":
                rec["attrs"] = a
            if style == "gel" or draw(st.integers(0, 3)) == 0:
                rec["id"] = canon_key(s, d) if draw(st.integers(0, 3)) else f"{s}{ARROW}{d}"
            if style == "raw" and draw(st.integers(0, 9)) == 0:
                rec["extra"] = draw(json_leaf())
            recs.append(rec)
        if style == "raw" and draw(st.integers(0, 19)) == 19:
            # distinct endpoint pairs whose ids share characters with each other (prefix/suffix/separator look-alikes)
            for (s, d, rel), w in zip(draw(st.sampled_from(LOOKALIKES)), (0.5, 0.25)):
                rec = {"src": s, "dst": d, "weight": w}
                if rel is not None:
                    rec["rel"] = rel
                recs.insert(draw(st.integers(0, len(recs))), rec)
        if style == "gel":
            uniq = {}
            for r in recs:
                uniq[canon_key(r["src"], r["dst"])] = r
            edges = dict(uniq)
        else:
            form = draw(st.sampled_from(["list", "dict", "dict"]))
            if form == "list":
                edges = recs
            else:
                edges = {}
                for i, r in enumerate(recs):
                    kk = draw(st.sampled_from(["canon", "literal", "eid", "arb", "arb"]))
                    s, d = r["src"], r["dst"]
                    if kk == "canon":
                        key = canon_key(s, d)
                    elif kk == "literal":
                        key = f"{s}{ARROW}{d}"
                    elif kk == "eid":
                        a, b = canon_pair(s, d)
                        key = f"{a}__{b}__{r.get('rel', 'coact')}"
                    else:
                        key = draw(st.sampled_from(["k", "é", "", "e"])) + str(i)
                    if key in edges:
                        key = f"{key}#{i}"
                    edges[key] = r
        # ---------- nodes
        node_ids = draw(st.lists(st.sampled_from(pool + ["z", "c::a"]), max_size=4, unique=True))
        node_recs = [{"id": nid, "label": draw(st.sampled_from([None, "x", "é", nid])),
                      "attrs": draw(st.sampled_from([{}, {"kind": "concept"}, {"v": [1, math.nan]}]))} for nid in node_ids]
        nform = "dict" if style == "gel" else draw(st.sampled_from(["dict", "dict", "list", "absent"]))
        g = {}
        if nform == "dict":
            g["nodes"] = {r["id"]: r for r in node_recs}
        elif nform == "list":
            g["nodes"] = node_recs
        g["edges"] = edges
        # ---------- meta
        mstyle = "gel" if style == "gel" else draw(st.sampled_from(["absent", "empty", "gel", "gel", "junk", "none"]))
        if mstyle == "empty":
            g["meta"] = {}
        elif mstyle == "none":
            g["meta"] = None
        elif mstyle in ("gel", "junk"):
            rec_list = st.lists(st.fixed_dictionaries({"nodes": st.lists(st.sampled_from(pool), max_size=3),
                                                       "size": st.integers(0, 4), "avg_w": st.sampled_from([0.0, 0.25, 1 / 3]),
                                                       "signature": st.sampled_from(["a|b", "é", ""])}), max_size=2)
            meta = {"schema": draw(st.sampled_from(["v1", "v1.1"])), "merges": draw(rec_list), "splits": draw(rec_list),
                    "promotions": draw(rec_list), "concept_nodes_count": draw(st.integers(0, 5))}
            if draw(st.booleans()):
                meta["edges_count"] = draw(st.integers(0, 9))
            if draw(st.integers(0, 2)) == 0:
                meta["last_update"] = draw(st.sampled_from([None, "2025-01-01T00:00:00Z", 3]))
            if mstyle == "junk":
                for k in draw(st.lists(st.sampled_from(["merges", "splits", "promotions", "concept_nodes_count", "foo", "schema"]),
                                       min_size=1, max_size=3, unique=True)):
                    meta[k] = draw(st.sampled_from(["x", None, 2.7, "3", True, {"a": 1}, math.nan, math.inf, [], [1, "é"], -1, "abc"]))
            g["meta"] = meta
        return g

    return graphs()


@functools.lru_cache(maxsize=256)  # building a composite strategy costs an inspect.getsource each time
def edit_strategy(lo, hi):
    """Raw edits applied to a LOADED state to obtain the next generation's state."""
    st = _st()
    return st.fixed_dictionaries({
        "add": graph_strategy(lo, hi, 3),                       # its edges/nodes are merged into the loaded graph
        "drop": st.lists(st.integers(0, 7), max_size=2),        # indices (mod n) of loaded edges to delete
        "reweigh": st.lists(st.tuples(st.integers(0, 7), weights_strategy(lo, hi)), max_size=2),
    })


@functools.lru_cache(maxsize=256)  # building a composite strategy costs an inspect.getsource each time
def salt_strategy(max_salts):
    st = _st()
    suffix = st.text(alphabet=SUFFIX_ALPHABET, min_size=8, max_size=8)
    return st.lists(st.fixed_dictionaries({
        "kind": st.sampled_from(["sidecar", "sidecar", "tmp", "tmp", "real_tmp", "real_tmp", "real_meta_tmp", "meta_tmp", "meta_tmp", "zst", "tilde", "bak", "dir",
                                 "pr34_sidecar", "pr34_zst", "snap_sidecar", "snap_tmp", "orphan_sidecar", "orphan_tmp"]),
        "suffix": suffix,
        "content": st.sampled_from(["body", "body", "truncated", "sidecar", "garbage", "empty"]),
        "target": st.integers(0, 3),
    }), max_size=max_salts)


@functools.lru_cache(maxsize=256)  # building a composite strategy costs an inspect.getsource each time
def bounds_strategy():
    st = _st()

    @st.composite
    def bounds(draw):
        if draw(st.integers(0, 3)):
            lo, hi = draw(st.sampled_from(BOUNDS))
            return [lo, hi]
        a = draw(st.floats(min_value=-1.0, max_value=1.0, allow_nan=False))
        b = draw(st.floats(min_value=-1.0, max_value=1.0, allow_nan=False))
        if a == b:
            return [-1.0, 1.0]
        return [min(a, b), max(a, b)]

    return bounds()


@functools.lru_cache(maxsize=256)  # building a composite strategy costs an inspect.getsource each time
def deltas_strategy():
    st = _st()
    return st.lists(st.fixed_dictionaries({"target_kind": st.sampled_from(["node", "edge"]), "target_id": st.sampled_from(IDS),
                                           "attr": st.just("weight"), "delta": st.sampled_from([0.5, -0.25, 1e-7, math.nan]),
                                           "op_idx": st.sampled_from([None, 0]), "idx": st.sampled_from([None, 3])}), max_size=2)


GRAPH_CLAMPS = [(-1.0, 1.0), (-0.5, 0.5), (0.0, 1.0), (-0.25, 0.0), (-0.1, 0.1)]


@functools.lru_cache(maxsize=256)  # building a composite strategy costs an inspect.getsource each time
def cfg_extra_strategy():
    """Validated-config leaves that sit next to the snapshot bounds and must NOT influence a snapshot: graph.update.clamp_*,
    graph.decay.floor, graph.enabled, perf.snapshots.* (with the perf master switch on or off), t4.snapshot_every_n_turns
    (cadence is the caller's business: write_snapshot is called directly)."""
    st = _st()

    @st.composite
    def extras(draw):
        out = {}
        if draw(st.integers(0, 2)) == 0:
            return out
        if draw(st.booleans()):
            cmin, cmax = draw(st.sampled_from(GRAPH_CLAMPS))
            g = {"enabled": draw(st.booleans()), "update": {"clamp_min": cmin, "clamp_max": cmax}}
            floor = draw(st.sampled_from([0.0, 0.05, 0.3, 1e-6]))
            g["decay"] = {"floor": min(floor, cmax)}
            out["graph"] = g
        if draw(st.booleans()):
            ps = {}
            if draw(st.booleans()):
                ps["compression"] = draw(st.sampled_from(["zstd", "zstd", "none"]))
            if draw(st.booleans()):
                ps["level"] = draw(st.sampled_from([1, 3, 19]))
            if draw(st.booleans()):
                ps["delta_mode"] = draw(st.booleans())
            if draw(st.booleans()):
                ps["every_n_turns"] = draw(st.sampled_from([1, 3, 100]))
            out["perf"] = {"enabled": draw(st.booleans()), "snapshots": ps}
        if draw(st.booleans()):
            out["t4"] = {"snapshot_every_n_turns": draw(st.sampled_from([1, 3, 100]))}
        return out

    return extras()


FRESH_VERSIONS = ["__absent__", "__absent__", "0", "stale", "__next__", "__same__", "__none__"]
CLOCK_STEPS_NS = [10 * 10 ** 9, 10 * 10 ** 9, 10 ** 6, 10 ** 9 + 1]  # 10 s, 1 ms, a hair over 1 s


def _fmt_version(style, v):
    return {"d": str(v), "v": f"v{v}", "pad": f"{v:03d}", "dot": f"1.{v}"}[style]


def roundtrip_strategy(max_gens, max_edges, max_salts):
    st = _st()

    @st.composite
    def one_gen(draw, flo, fhi, i, prev_agent):
        g = {"agent": draw(st.sampled_from(AGENTS[:4] if i else AGENTS)) if (i == 0 or draw(st.booleans())) else prev_agent,
             "version": draw(st.sampled_from(VERSIONS)), "turn": draw(st.sampled_from([0, 1, 7, "3", "junk", None])),
             "applied": draw(st.sampled_from([0, 1, 5, None])), "deltas": draw(deltas_strategy()),
             "delta_shape": draw(st.sampled_from(["ns", "ns", "dataclass", "dict"])),
             "store": draw(store_strategy()), "state_shape": draw(st.sampled_from(["dict", "dict", "ns"])),
             "graph_key": draw(st.sampled_from(["graph", "graph", "graph", "gel", "both", "graph+stale-gel"])),
             "fresh_version": draw(st.sampled_from(FRESH_VERSIONS)),
             "foreign": draw(st.sampled_from([None, None, None, "gel", "graph-key"])),
             "salts": draw(salt_strategy(max_salts)), "salts2": draw(salt_strategy(1))}
        return g

    @st.composite
    def free_gens(draw, flo, fhi):
        n = min(max_gens, draw(st.sampled_from([1, 1, 1, 2, 2, 3])))
        gens = []
        for i in range(n):
            g = draw(one_gen(flo, fhi, i, gens[-1]["agent"] if gens else None))
            if i == 2 and draw(st.booleans()):
                g["agent"] = gens[0]["agent"]  # A, B, A: the first agent REPLACES its body while another one is the newest
            glo, ghi = flo, fhi
            if i > 0 and draw(st.integers(0, 2)) == 0:
                # the process restarts under OTHER bounds: the previous body is first loaded under them
                b = draw(bounds_strategy())
                g["lo"], g["hi"] = b
                glo, ghi = float(b[0]), float(b[1])
            if i > 0 and draw(st.booleans()):
                g["base"] = "loaded"
                g["edit"] = draw(edit_strategy(glo, ghi))
            else:
                g["base"] = "new"
                g["graph"] = draw(graph_strategy(glo, ghi, max_edges))
            gens.append(g)
        return gens

    @st.composite
    def chain_gens(draw, flo, fhi):
        """One agent writing a RUN of versions into one directory (counter crossing 9->10 / 99->100, standing still, going
        back), every write followed by a load into a fresh state. Everything but the version (and sometimes the graph)
        is the same from link to link, so consecutive bodies often have the same size; with `freeze` they also keep the
        same mtime."""
        proto = draw(one_gen(flo, fhi, 0, None))
        other = draw(st.sampled_from(AGENTS[:4]))
        style = draw(st.sampled_from(["d", "d", "d", "v", "pad", "dot"]))
        v = draw(st.sampled_from([8, 9, 9, 98, 99, 7, 1, 0, 10]))
        n = draw(st.integers(3, 6 if max_gens >= 3 else 3))
        gens = []
        for i in range(n):
            g = copy.deepcopy(proto)
            if i:
                v = max(0, v + draw(st.sampled_from([1, 1, 1, 1, 0, -1, -2, 10])))
                g["salts"], g["salts2"] = draw(salt_strategy(1)), []
                g["fresh_version"] = draw(st.sampled_from(FRESH_VERSIONS))
                if draw(st.integers(0, 3)) == 0:
                    g["agent"] = other  # another agent's body lands in between
            g["version"] = _fmt_version(style, v)
            g["cycles"] = 1
            g["freeze"] = draw(st.booleans())
            what = "new" if i == 0 else draw(st.sampled_from(["same", "same", "edit", "new"]))
            if what == "new":
                g["base"] = "new"
                g["graph"] = draw(graph_strategy(flo, fhi, max_edges))
            else:
                g["base"] = "loaded"
                g["edit"] = draw(edit_strategy(flo, fhi)) if what == "edit" else {"add": None, "drop": [], "reweigh": []}
            gens.append(g)
        return gens

    @st.composite
    def cases(draw):
        lo, hi = draw(bounds_strategy())
        flo, fhi = float(lo), float(hi)
        mode = draw(st.sampled_from(["free", "free", "free", "free", "free", "chain"]))
        gens = draw(chain_gens(flo, fhi) if mode == "chain" else free_gens(flo, fhi))
        return {"lo": lo, "hi": hi, "gens": gens, "dir_mode": draw(st.sampled_from(["explicit", "explicit", "relative", "env", "env+legacy", "legacy-env"])),
                "mode": mode, "cfg_extra": draw(cfg_extra_strategy()),
                "ctx_shape": draw(st.sampled_from(["both", "both", "cfg", "config"])),
                "clock_step_ns": draw(st.sampled_from(CLOCK_STEPS_NS)),
                "clock": draw(st.sampled_from(["explicit", "explicit", "natural"])),
                "boot_prelude": draw(st.booleans())}

    return cases()


# =====================================================================================================
# world: sandbox, ctx, salts
# =====================================================================================================

@contextlib.contextmanager
def _sandbox():
    """harness.world.sandbox on tmpfs when available (the writer fsyncs four times per snapshot)."""
    from harness import world
    old = os.environ.get("VERIF_TMP")
    if not old and os.path.isdir("/dev/shm") and os.access("/dev/shm", os.W_OK):
        os.environ["VERIF_TMP"] = "/dev/shm"
    try:
        with world.sandbox("c06_") as d:
            yield d
    finally:
        if old is None:
            os.environ.pop("VERIF_TMP", None)
        else:
            os.environ["VERIF_TMP"] = old


_CFG_CACHE = {}


def make_cfg(lo, hi, root, dir_mode="explicit", extra=None):
    """Validated config + the directory the snapshots will live in.
    explicit: t4.snapshot_dir = <sandbox>/snap (absolute);  relative: the validated default ('./.data/snapshots',
    resolved against the sandbox cwd);  env: no t4.snapshot_dir at all -> clematis.io.paths.snapshots_dir() ->
    $CLEMATIS_SNAPSHOT_DIR (= <sandbox>/snap).  `extra`: further overrides (validated together with the bounds)."""
    from harness import world
    key = (repr(lo), repr(hi), json.dumps(extra or {}, sort_keys=True))
    if key not in _CFG_CACHE:
        over = world.deep_merge(extra or {}, {"t4": {"weight_min": lo, "weight_max": hi}})
        _CFG_CACHE[key] = world.validated_cfg(over)
    cfg = copy.deepcopy(_CFG_CACHE[key])
    snap_dir = os.path.join(root, "snap")
    if dir_mode == "explicit":
        cfg["t4"]["snapshot_dir"] = snap_dir
    elif dir_mode == "relative":
        rel = str(cfg["t4"].get("snapshot_dir") or "./.data/snapshots")
        if os.path.isabs(rel):
            raise RuntimeError(f"harness: validated default t4.snapshot_dir is absolute: {rel}")
        snap_dir = os.path.abspath(rel)  # cwd is <sandbox>/cwd
    elif dir_mode in ("env", "env+legacy", "legacy-env"):
        cfg["t4"].pop("snapshot_dir", None)
        snap_dir = os.path.realpath(snap_dir)
    else:
        raise RuntimeError(f"unknown dir_mode {dir_mode}")
    return cfg, snap_dir


def make_ctx(cfg, agent, turn, shape="both"):
    """ctx exposing the config as .cfg and .config (default), or under only one of the two names (the snapshot code reads
    both and merges them)."""
    from harness import world
    ctx = world.make_ctx(cfg, agent=agent, turn_id=turn)
    if shape == "cfg":
        delattr(ctx, "config")
    elif shape == "config":
        delattr(ctx, "cfg")
    return ctx


@contextlib.contextmanager
def _snapshot_env(dir_mode, root):
    """clematis.io.paths.snapshots_dir() documents: $CLEMATIS_SNAPSHOT_DIR first, the legacy $CLEMATIS_SNAPSHOTS_DIR second.
    env+legacy: both are set (to different directories; the primary one is <sandbox>/snap);  legacy-env: only the legacy
    variable is set (to <sandbox>/snap)."""
    keys = ("CLEMATIS_SNAPSHOT_DIR", "CLEMATIS_SNAPSHOTS_DIR")
    saved = {k: os.environ.get(k) for k in keys}
    try:
        if dir_mode == "env+legacy":
            os.environ["CLEMATIS_SNAPSHOTS_DIR"] = os.path.join(root, "legacy")
        elif dir_mode == "legacy-env":
            os.environ.pop("CLEMATIS_SNAPSHOT_DIR", None)
            os.environ["CLEMATIS_SNAPSHOTS_DIR"] = os.path.join(root, "snap")
        yield
    finally:
        for k, v in saved.items():
            if v is None:
                os.environ.pop(k, None)
            else:
                os.environ[k] = v


class Clock:
    """mtimes of the real bodies.
    explicit (default): strictly increasing mtimes SET by the harness after every write (integer nanoseconds; `step_ns`
    apart: 10 s, 1 ms, ...); `freeze`: a body rewritten in place keeps the mtime it had (it is still the newest).
    natural: the harness never touches the mtime of a real body -- what discovery sees is what the WRITER left. To keep
    'latest' well defined, `barrier()` (called before every write) waits until the filesystem clock has moved past the
    newest real body (a probe file is rewritten until its own mtime is larger; no assumption about the granularity).
    Salts sit 10**6 s above every explicit mtime (year 2033+, i.e. also above every natural one)."""

    def __init__(self, step_ns=10 * 10 ** 9, natural=False, root=None):
        self.t = 2_000_000_000 * 10 ** 9
        self.step = int(step_ns)
        self.newest = None
        self.n_salt = 0
        self.natural = bool(natural)
        self.high = 0  # natural mode: largest mtime any real body has been seen with
        self.probe = os.path.join(root, "clock.probe") if root else None

    def barrier(self):
        if not self.natural:
            return
        import time
        for _ in range(5000):
            with open(self.probe, "wb") as f:
                f.write(b"x")
            if os.stat(self.probe).st_mtime_ns > self.high:
                return
            time.sleep(0.001)
        raise RuntimeError("harness: the filesystem clock of the sandbox does not advance")

    def real(self, path, freeze=False):
        if self.natural:
            self.high = max(self.high, os.stat(path).st_mtime_ns)
            self.newest = path
            return self.high
        if not (freeze and self.newest == path):
            self.t += self.step
        os.utime(path, ns=(self.t, self.t))
        self.newest = path
        return self.t

    def salt(self, path):
        self.n_salt += 1
        t = self.t + (1_000_000 + self.n_salt) * 10 ** 9
        os.utime(path, ns=(t, t), follow_symlinks=True)


def other_body(tag):
    """A complete, valid snapshot body that must never be loaded (its version betrays it)."""
    return json.dumps({"turn": 0, "agent": "salt", "version_etag": f"SALT-{tag}", "applied": 0, "deltas": [],
                       "schema_version": "v1", "store": {"weights": [{"target_kind": "node", "target_id": "salt",
                                                                      "attr": "weight", "value": 0.5}]},
                       "graph_schema_version": "v1.1",
                       "gel": {"nodes": {}, "edges": {f"s{ARROW}t": {"id": f"s{ARROW}t", "src": "s", "dst": "t", "weight": 0.5,
                                                                    "rel": "coact", "updated_at": None, "attrs": {}}},
                               "meta": {"schema": "v1.1", "merges": [], "splits": [], "promotions": [],
                                        "concept_nodes_count": 0, "edges_count": 1}}}).encode()


def salt_name(s, agents):
    ag = agents[s["target"] % len(agents)] if agents else "ghost"
    k, suf = s["kind"], s["suffix"]
    if k == "dir":  # never a directory that is NAMED like a body (agent ids such as 'x.json' would make 'state_x.json')
        name = [f"state_{ag}.json.d", f"state_{ag}", "tmp", f"state_{ag}.json.{suf}.d"][s["target"] % 4]
        return name + ".d" if name.endswith(".json") else name
    return {
        "sidecar": f"state_{ag}.json.meta",
        "tmp": f"state_{ag}.json.{suf}",
        "meta_tmp": f"state_{ag}.json.meta.{suf}",
        "zst": f"state_{ag}.json.zst",
        "tilde": f"state_{ag}.json~",
        "bak": f"state_{ag}.json.bak",
        "dir": [f"state_{ag}.json.d", f"state_{ag}", "tmp", f"state_{ag}.json.{suf}.d"][s["target"] % 4],
        "pr34_sidecar": f"snapshot-{suf}.full.json.meta",
        "pr34_zst": f"snapshot-{suf}.delta.json.zst",
        "snap_sidecar": "snap_000009.json.meta",
        "snap_tmp": f"snap_000009.json.{suf}",
        "orphan_sidecar": f"state_ghost{s['target']}.json.meta",
        "orphan_tmp": f"state_ghost{s['target']}.json.{suf}",
        # the next two are placeholders: the real name is asked from the writer itself (io.atomic._make_tmp), so a change
        # to how the atomic writer names its temporaries is seen by discovery exactly as after a killed write
        "real_tmp": f"state_{ag}.json",
        "real_meta_tmp": f"state_{ag}.json.meta",
    }[k]


SIDECARISH = {"sidecar", "meta_tmp", "pr34_sidecar", "snap_sidecar", "orphan_sidecar"}
TEMPISH = {"tmp", "meta_tmp", "snap_tmp", "orphan_tmp", "real_tmp", "real_meta_tmp"}


def apply_salts(snap_dir, salts, agents, clock, tag):
    """Create the salt entries with mtimes newer than every real body. Returns labels."""
    labels = []
    for j, s in enumerate(salts):
        name = salt_name(s, agents)
        p = os.path.join(snap_dir, name)
        labels.append("salt:" + s["kind"])
        if s["kind"] in ("real_tmp", "real_meta_tmp"):
            from pathlib import Path
            from clematis.io.atomic import _make_tmp
            p = str(_make_tmp(Path(p)))  # the leftover of a write killed before its rename
        if s["kind"] == "dir":
            os.makedirs(p, exist_ok=True)
            clock.salt(p)
            continue
        if os.path.isdir(p):
            continue
        if s["kind"] == "sidecar" and os.path.exists(p):
            clock.salt(p)  # the genuine sidecar, simply newer than its body (it always is in real life)
            continue
        body = other_body(f"{tag}.{j}")
        content = s["content"]
        if s["kind"] in SIDECARISH and content == "body":
            content = "sidecar"
        if content == "body":
            data = body
        elif content == "truncated":
            data = body[: len(body) // 2]
        elif content == "sidecar":
            data = b'{"created_at": "1980-01-01T00:00:00Z", "schema_version": "v1"}\n'
        elif content == "garbage":
            data = b"\x28\xb5\x2f\xfd\x00\xff\xfe{not json"
        else:
            data = b""
        with open(p, "wb") as f:
            f.write(data)
        clock.salt(p)
    return labels


class _Guarded:
    """The snapshot API as the property sees it: on the inputs of its domain these calls complete (a snapshot that could
    not be written or loaded restores nothing). An exception escaping one of them is therefore a failure of the property,
    not of the harness -- except resource exhaustion of the machine the check runs on."""
    NAMES = ("write_snapshot", "load_latest_snapshot", "_pick_latest_snapshot_path", "get_latest_snapshot_info", "write_snapshot_auto",
             "read_snapshot")

    def __init__(self, mod, case):
        self._mod, self._case = mod, case

    def __getattr__(self, name):
        obj = getattr(self._mod, name)
        if name not in self.NAMES:
            return obj

        def call(*a, **k):
            import errno
            try:
                return obj(*a, **k)
            except MemoryError:
                raise
            except OSError as e:
                if e.errno in (errno.ENOSPC, errno.EMFILE, errno.ENFILE, errno.ENOMEM, errno.EDQUOT):
                    raise
                raise Violation(f"{name} raised {type(e).__name__}: {e}", self._case, "raises:" + name)
            except Exception as e:
                raise Violation(f"{name} raised {type(e).__name__}: {e}", self._case, "raises:" + name)

        return call


def listing(snap_dir):
    return sorted(os.listdir(snap_dir))


# =====================================================================================================
# roundtrip: executing one history
# =====================================================================================================

def _decode_graph(g):
    """'__missing__' markers are resolved by the strategy already; this only deep-copies."""
    return copy.deepcopy(g)


def _get(state, key, default=None):
    if isinstance(state, dict):
        return state.get(key, default)
    return getattr(state, key, default)


def _make_state(shape, store, graph, version=MISSING, graph_key="graph"):
    """graph_key: the graph lives at state.graph (default), only at state.gel (the writer's documented fall-back), or at
    state.gel with an empty state.graph next to it."""
    d = {}
    if store is not None:
        d["store"] = store
    if graph is not None:
        if graph_key == "gel":
            d["gel"] = graph
        elif graph_key == "both":
            d["graph"] = {}
            d["gel"] = graph
        elif graph_key == "graph+stale-gel":  # the writer documents: state.graph first, state.gel only as a fall-back
            d["graph"] = graph
            d["gel"] = {"nodes": {"stale": {"id": "stale"}}, "meta": {"merges": [{"signature": "stale"}]},
                        "edges": {f"stale{ARROW}zz": {"id": f"stale{ARROW}zz", "src": "stale", "dst": "zz", "weight": 0.75,
                                                      "rel": "coact", "updated_at": None, "attrs": {}}}}
        else:
            d["graph"] = graph
    if version is not MISSING:
        d["version_etag"] = version
    return d if shape == "dict" else SimpleNamespace(**d)


def _fresh_version(spec, version):
    """version_etag a 'fresh' state carries before the load (MISSING = no such key)."""
    if spec == "__absent__":
        return MISSING
    if spec == "__none__":
        return None
    if spec == "__same__":
        return version
    if spec == "__next__":  # a fresh state that claims to be AHEAD of the snapshot
        try:
            return str(int(version) + 1)
        except ValueError:
            return version + "z"
    return spec


def _edited_graph(prev_graph, edit):
    """Previous generation's LOADED graph (plain data copy) + raw edits."""
    g = copy.deepcopy(prev_graph)
    edges = g.get("edges")
    if not isinstance(edges, dict):
        edges = {}
    keys = list(edges.keys())
    for i in edit["drop"]:
        if keys:
            edges.pop(keys[i % len(keys)], None)
    keys = list(edges.keys())
    for i, w in edit["reweigh"]:
        if keys:
            rec = edges[keys[i % len(keys)]]
            if isinstance(w, str):
                rec.pop("weight", None)
            else:
                rec["weight"] = w
    add = edit["add"]
    if isinstance(add, dict):
        ae = add.get("edges")
        items = list(ae.items()) if isinstance(ae, dict) else [(f"+{i}", r) for i, r in enumerate(ae or [])]
        for k, r in items:
            kk = k
            while kk in edges and kk != canon_key(r["src"], r["dst"]):
                kk = kk + "+"
            edges[kk] = copy.deepcopy(r)
        an = add.get("nodes")
        nodes = g.get("nodes")
        if not isinstance(nodes, dict):
            nodes = {}
        if isinstance(an, dict):
            nodes.update(copy.deepcopy(an))
        elif isinstance(an, list):
            for nd in an:
                nodes[nd["id"]] = copy.deepcopy(nd)
        g["nodes"] = nodes
        if isinstance(add.get("meta"), dict):
            g["meta"] = copy.deepcopy(add["meta"])
    g["edges"] = edges
    return g


def _deltas(specs, shape="ns"):
    if shape == "dataclass":
        from clematis.engine.types import ProposedDelta
        return [ProposedDelta(**d) for d in specs]
    if shape == "dict":
        return [dict(d) for d in specs]
    return [SimpleNamespace(**d) for d in specs]


def _foreign_body(doc, graph, style):
    """The body `doc` as another writer (an older release, a hand edit) could have left it: the gel section holds the RAW
    graph instead of its sanitised form (style 'gel'), or the body has no gel section and the raw graph sits under the
    legacy `graph` key (style 'graph-key')."""
    f = dict(doc)
    if style == "gel":
        f["gel"] = graph
    else:
        f.pop("gel", None)
        f["graph"] = graph
    return json.dumps(f).encode("utf-8")


def _poison_deep(x, depth=0):
    """In-place edits at every level of a structure (what a running engine does to its own state)."""
    if depth > 6:
        return
    if isinstance(x, dict):
        for v in list(x.values()):
            _poison_deep(v, depth + 1)
        x["poisoned"] = 0.987654
        for k in ("weight", "rel", "label", "value", "version_etag"):
            if k in x:
                x[k] = 0.987654 if k in ("weight", "value") else "poisoned"
    elif isinstance(x, list):
        for v in x:
            _poison_deep(v, depth + 1)
        x.append({"signature": "poisoned"})


def _poison_graph(g):
    if isinstance(g, dict):
        _poison_deep(g)


def _strip_last_update(g):
    if isinstance(g, dict) and isinstance(g.get("meta"), dict) and "last_update" in g["meta"]:
        g = dict(g)
        g["meta"] = {k: v for k, v in g["meta"].items() if k != "last_update"}
    return g


def _check_gel_against_ref(where, gel_edges, gel_nodes, nodes_ref, pairs_ref, V):
    """gel_edges/gel_nodes: what the body holds / what the loaded state holds."""
    if not isinstance(gel_edges, dict):
        V(f"{where}: edges is {type(gel_edges).__name__}, not a dict", "edges-shape")
    want, got = set(pairs_ref), set(gel_edges)
    if want - got:
        V(f"{where}: edge(s) {sorted(want - got)} missing (unordered pairs listed in the state: {sorted(want)}; stored keys: "
          f"{sorted(got)})", "edge-lost")
    if got - want:
        V(f"{where}: edge(s) stored under non-canonical or spurious key(s) {sorted(got - want)} (expected exactly "
          f"{sorted(want)})", "edge-key")
    for key in sorted(want):
        cands = pairs_ref[key]
        act = gel_edges[key]
        if not any(edge_matches(act, c) for c in cands):
            c0 = cands[0]
            what = "weight" if (len(cands) == 1 and isinstance(act, dict) and set(act) == set(c0)
                                and all(same(act[k], c0[k]) for k in c0 if k != "weight")) else "record"
            V(f"{where}: edge {key!r} stored as {short(act)} but the documented sanitisation (clamp to bounds, round to 6 "
              f"decimals, canonical key) of the listed record(s) gives {short([{k: ('<finite>' if (k == 'weight' and v is None) else v) for k, v in c.items()} for c in cands], 600)}",
              "edge-weight" if what == "weight" else "edge-record")
    if not same(gel_nodes, nodes_ref):
        V(f"{where}: nodes {short(gel_nodes)} but the state listed {short(nodes_ref)}", "nodes")


def _check_meta(where, meta, graph, n_pairs, V, labels, count=True):
    if not isinstance(meta, dict):
        V(f"{where}: gel.meta is {type(meta).__name__}", "meta-shape")
    if count and meta.get("edges_count") != n_pairs:
        V(f"{where}: meta.edges_count = {meta.get('edges_count')!r} but {n_pairs} edges are stored", "meta-edges-count")
    meta_in = graph.get("meta") if isinstance(graph, dict) else None
    if meta_in is None:
        meta_in = {}  # no graph / no meta at all: a state without any merge, split or promotion history
    if not isinstance(meta_in, dict):
        return
    for k in ("merges", "splits", "promotions"):
        v = meta_in.get(k)
        if isinstance(v, list):
            if not same(meta.get(k), v):
                V(f"{where}: meta.{k} = {short(meta.get(k))} but the state held {short(v)}", "meta-list")
        elif k in meta_in:
            labels.add("meta:junk-field")
        elif meta.get(k) != []:
            # the state has no such history: the documented default is an empty container -- never somebody else's
            V(f"{where}: meta.{k} = {short(meta.get(k))} although the state written has no {k} history at all", "meta-list-foreign")
    c = meta_in.get("concept_nodes_count")
    if isinstance(c, int) and not isinstance(c, bool):
        if meta.get("concept_nodes_count") != c:
            V(f"{where}: meta.concept_nodes_count = {meta.get('concept_nodes_count')!r} but the state held {c}", "meta-counter")
    elif "concept_nodes_count" in meta_in:
        labels.add("meta:junk-field")
    if "last_update" in meta_in:
        labels.add("meta:last_update")


def run_history(case):
    """Execute one history. Returns (labels, nontrivial). Raises Violation."""
    import logging
    from clematis.engine import snapshot as _S
    from harness import world

    S = _Guarded(_S, case)
    logging.disable(logging.CRITICAL)
    labels = set()
    nontrivial = False

    def bounds_labels(flo, fhi):
        if (flo, fhi) == (-1.0, 1.0):
            labels.add("bounds:default")
        else:
            labels.add("bounds:custom")
            if flo > 0 or fhi < 0:
                labels.add("bounds:exclude-zero")
            if ref_round6(flo) != flo or ref_round6(fhi) != fhi:
                labels.add("bounds:more-than-6-decimals")
        if isinstance(lo, str) or isinstance(hi, str):
            labels.add("bounds:given-as-text")

    n_gens = len(case["gens"])
    labels.add(f"gens:{n_gens}" if n_gens <= 3 else "gens:4+")
    labels.add("mode:" + case.get("mode", "free"))
    extra = case.get("cfg_extra") or {}
    for k in sorted(extra):
        labels.add("cfg:" + k)
    if ((extra.get("graph") or {}).get("update") or {}).get("clamp_max", 1.0) != 1.0 or \
            ((extra.get("graph") or {}).get("update") or {}).get("clamp_min", -1.0) != -1.0:
        labels.add("cfg:graph.update.clamp!=default")
    if ((extra.get("graph") or {}).get("decay") or {}).get("floor", 0.0) > 0.0:
        labels.add("cfg:graph.decay.floor>0")
    ctx_shape = case.get("ctx_shape", "both")
    labels.add("ctx:" + ctx_shape)
    step_ns = case.get("clock_step_ns", 10 * 10 ** 9)
    labels.add("mtime-step:" + ("sub-second" if step_ns < 10 ** 9 else "seconds"))

    with _sandbox() as root, _snapshot_env(case.get("dir_mode", "explicit"), root):
        dir_mode = case.get("dir_mode", "explicit")
        labels.add("dir:" + dir_mode)
        natural = case.get("clock") == "natural"
        labels.add("clock:" + ("natural(mtimes-left-by-the-writer)" if natural else "explicit"))
        clock = Clock(step_ns, natural=natural, root=root)
        if case.get("boot_prelude"):
            # Another state of this process boots from an EMPTY snapshot directory and then lives on: everything the loader
            # put on it is edited in place (the GEL layer appends to state.graph["meta"]["merges"] ...). Nothing of that
            # may show up in the bodies / loaded states of the history proper.
            labels.add("prelude:boot-from-empty-dir-then-edit-in-place")
            ecfg, _ = make_cfg(case["lo"], case["hi"], root, "explicit", extra)
            ecfg["t4"]["snapshot_dir"] = os.path.join(root, "empty")
            scratch = {"store": WStore(), "version_etag": "untouched"}
            r0 = S.load_latest_snapshot(make_ctx(ecfg, "Z", 0, ctx_shape), scratch)
            g0 = scratch.get("graph")
            if not isinstance(r0, dict) or r0.get("loaded") or r0.get("path") is not None or scratch.get("version_etag") != "untouched" \
                    or scratch["store"].w or not isinstance(g0, dict) or g0.get("edges") != {} or g0.get("nodes") != {} \
                    or not isinstance(g0.get("meta"), dict) or any(g0["meta"].get(k) != [] for k in ("merges", "splits", "promotions")):
                raise Violation(f"boot from an empty snapshot directory: load_latest_snapshot -> {short(r0)}, state {short({k: v for k, v in scratch.items() if k != 'store'}, 500)}"
                                f" -- expected nothing loaded and empty graph containers", case, "empty-dir-boot")
            _poison_deep(scratch.get("graph"))
            _poison_deep(scratch.get("gel"))
        prev_loaded_graph = None
        prev = None  # what the previous generation left behind: {"path","version","gel","lo","hi"}
        agents_seen = []
        for gi, gen in enumerate(case["gens"]):
            def V(msg, sig, _gi=gi):
                raise Violation(f"[gen {_gi}] {msg}", case, sig)

            lo, hi = gen.get("lo", case["lo"]), gen.get("hi", case["hi"])
            flo, fhi = float(lo), float(hi)
            bounds_labels(flo, fhi)
            cfg, snap_dir = make_cfg(lo, hi, root, dir_mode, extra)
            agent, version = gen["agent"], gen["version"]
            if agent not in agents_seen:
                agents_seen.append(agent)
            if not agent.isalnum():
                labels.add("agent:punctuated")
            ctx = make_ctx(cfg, agent, gen["turn"], ctx_shape)
            freeze = bool(gen.get("freeze"))
            cycles = gen.get("cycles", 2)
            gkey = gen.get("graph_key", "graph")
            foreign = gen.get("foreign")

            if prev is not None and (float(prev["lo"]), float(prev["hi"])) != (flo, fhi):
                # ---------------------------------------------------------- restart under other bounds
                # The body on disk was sanitised for the OLD bounds; a load clamps to the bounds configured NOW.
                labels.add("reconfig:bounds-changed-before-load")
                st0 = _make_state(gen["state_shape"], None, None)
                res0 = S.load_latest_snapshot(ctx, st0)
                if not isinstance(res0, dict) or res0.get("path") is None or os.path.abspath(res0["path"]) != os.path.abspath(prev["path"]):
                    V(f"load under new bounds read {res0.get('path') if isinstance(res0, dict) else res0!r}, the newest body is "
                      f"{prev['path']!r}", "discovery-load")
                if _get(st0, "version_etag") != str(prev["version"]):
                    V(f"load under new bounds restored version {_get(st0, 'version_etag')!r}; written {prev['version']!r}", "version-restored")
                g0 = _get(st0, "graph")
                if not isinstance(g0, dict):
                    V(f"load under new bounds: state.graph is {type(g0).__name__}", "graph-restored-shape")
                n0, p0 = ref_gel({"nodes": prev["gel"].get("nodes"), "edges": prev["gel"].get("edges")}, flo, fhi)
                if any(c["weight"] != prev["gel"]["edges"][k]["weight"] for k, cs in p0.items() for c in cs):
                    labels.add("reconfig:weight-reclamped")
                    nontrivial = True
                _check_gel_against_ref(f"load of a body written under [{prev['lo']}, {prev['hi']}] with bounds now [{lo}, {hi}]",
                                       g0.get("edges"), g0.get("nodes"), n0, p0, V)
                prev_loaded_graph = copy.deepcopy(g0)
            sspec = gen["store"]
            labels.add("store:" + sspec["kind"] + ("+w" if sspec.get("with_w") else ""))
            labels.add("state:" + gen["state_shape"])
            if gen["base"] == "loaded" and prev_loaded_graph is not None:
                graph = _edited_graph(prev_loaded_graph, gen["edit"])
                labels.add("base:loaded+edits")
            else:
                graph = _decode_graph(gen.get("graph"))
                labels.add("base:new")
            if graph is None:
                labels.add("graph:absent")
            else:
                gn = graph.get("nodes")
                labels.add("nodes:" + ("dict" if isinstance(gn, dict) else "list" if isinstance(gn, list) else "absent"))
                ge = graph.get("edges")
                labels.add("edges:" + ("dict" if isinstance(ge, dict) else "list"))
                m = graph.get("meta", MISSING)
                labels.add("meta:" + ("absent" if m is MISSING else "none" if m is None else "empty" if m == {} else "present"))
            cl, nt = edge_classes(graph, flo, fhi)
            labels |= cl
            n_e = len(edge_records(graph))
            if n_e > 64:
                labels.add("edges:bulk(>128)" if n_e > 128 else "edges:bulk(>64)")
                if isinstance(graph.get("meta"), dict) and isinstance(graph["meta"].get("merges"), list) and len(graph["meta"]["merges"]) > 64:
                    labels.add("meta:long-history(>64)")
            if sspec["kind"] == "w" and len(sspec["items"]) > 64:
                labels.add("store:w-bulk(>64)")
            if sspec["kind"] == "w" and any(isinstance(it[1], int) for it in sspec["items"]):
                labels.add("store:w-int-id")
            nontrivial = nontrivial or nt

            nodes_ref, pairs_ref = ref_gel(graph, flo, fhi)
            store_ref = ref_store_export(sspec)
            path_ref = os.path.join(snap_dir, f"state_{agent}.json")
            applied, deltas = gen["applied"], _deltas(gen["deltas"], gen.get("delta_shape", "ns"))
            if gen["deltas"]:
                labels.add("deltas:" + gen.get("delta_shape", "ns"))
            if graph is not None:
                labels.add("graph-at:" + gkey)
            if freeze and clock.newest == path_ref and not natural:
                labels.add("rewrite:same-mtime")
            if natural and os.path.exists(path_ref) and clock.newest is not None and clock.newest != path_ref:
                # the writer replaces an existing body while ANOTHER file is the newest one: the mtime it leaves decides
                labels.add("natural:overwrite-of-an-older-body")
            if prev is not None and prev["path"] == path_ref:
                a, b = str(prev["version"]), str(version)
                labels.add("chain:same-version" if a == b else "chain:version-same-length" if len(a) == len(b)
                           else "chain:version-longer" if len(b) > len(a) else "chain:version-shorter")
                if a.isdigit() and b.isdigit():
                    labels.add("chain:counter-" + ("up" if int(b) > int(a) else "down" if int(b) < int(a) else "still"))
                    if int(b) > int(a) and b < a:
                        labels.add("chain:counter-up-but-text-down")

            # ------------------------------------------------------------------ write 1
            state0 = _make_state(gen["state_shape"], make_store(sspec), copy.deepcopy(graph), graph_key=gkey)
            clock.barrier()
            p1 = S.write_snapshot(ctx, state0, version, applied, deltas)
            if os.path.abspath(p1) != os.path.abspath(path_ref) or not os.path.isfile(path_ref):
                V(f"write_snapshot returned {p1!r}; expected the per-agent body {path_ref!r}", "write-path")
            with open(path_ref, "rb") as f:
                body1 = f.read()
            try:
                doc = json.loads(body1.decode("utf-8"))
            except ValueError as e:
                V(f"snapshot body is not JSON: {e}", "body-not-json")
            if not isinstance(doc, dict) or doc.get("schema_version") != "v1":
                V(f"snapshot body carries schema_version={doc.get('schema_version') if isinstance(doc, dict) else None!r}, "
                  f"expected the frozen marker 'v1'", "schema-body")
            if S.SCHEMA_VERSION != "v1":
                V(f"SCHEMA_VERSION is {S.SCHEMA_VERSION!r}, frozen value is 'v1'", "schema-constant")
            side = path_ref + ".meta"
            try:
                with open(side, "r", encoding="utf-8") as f:
                    sdoc = json.load(f)
            except (OSError, ValueError) as e:
                V(f"sidecar {os.path.basename(side)} missing or unreadable after write_snapshot: {e}", "schema-sidecar")
            if not isinstance(sdoc, dict) or sdoc.get("schema_version") != "v1":
                V(f"sidecar content {short(sdoc)} does not carry schema_version 'v1'", "schema-sidecar")
            if doc.get("version_etag") != version:
                V(f"body version_etag {doc.get('version_etag')!r} != written {version!r}", "version-written")
            if not same(doc.get("store"), store_ref):
                V(f"written store section {short(doc.get('store'))} != export of the store {short(store_ref)}", "store-written")
            gel = doc.get("gel")
            if not isinstance(gel, dict):
                V(f"body has no gel section: {short(gel)}", "gel-missing")
            _check_gel_against_ref("written body", gel.get("edges"), gel.get("nodes"), nodes_ref, pairs_ref, V)
            _check_meta("written body", gel.get("meta"), graph, len(pairs_ref), V, labels)
            if foreign and isinstance(graph, dict):
                # Same body, but with the gel section as a foreign / older writer (or a hand edit) leaves it: raw.  The
                # loader documents the SAME sanitisation as the writer, so the loaded state and the snapshot taken from it
                # must be exactly those of the body just checked.
                labels.add("foreign-body:" + foreign)
                with open(path_ref, "wb") as f:
                    f.write(_foreign_body(doc, graph, foreign))
            clock.real(path_ref, freeze)
            labels |= set(apply_salts(snap_dir, gen["salts"], agents_seen, clock, f"g{gi}a"))

            # ------------------------------------------------------------------ discovery + load 1
            def discover(tag):
                picked = S._pick_latest_snapshot_path(snap_dir)
                if picked is None or os.path.abspath(picked) != os.path.abspath(path_ref):
                    V(f"{tag}: _pick_latest_snapshot_path chose {os.path.basename(picked) if picked else None!r}; the newest real "
                      f"snapshot body is {os.path.basename(path_ref)!r} (directory: {listing(snap_dir)})", "discovery-pick")
                info = S.get_latest_snapshot_info(None if dir_mode in ("env", "env+legacy", "legacy-env") else snap_dir)
                if not isinstance(info, dict) or os.path.abspath(str(info.get("path"))) != os.path.abspath(path_ref):
                    V(f"{tag}: get_latest_snapshot_info -> {short(info)}; expected path {path_ref!r}", "discovery-info")
                if info.get("schema_version") != "v1" or info.get("version_etag") != version:
                    V(f"{tag}: get_latest_snapshot_info reports schema_version={info.get('schema_version')!r} "
                      f"version_etag={info.get('version_etag')!r}; written: 'v1', {version!r}", "info-fields")

            if foreign and isinstance(graph, dict) and any(len(v) > 1 for v in pairs_ref.values()):
                labels.add("foreign-body:pair-listed-twice")  # the loader merges them AFTER it counted (fix 8140b74)

            def load(tag):
                fv = gen["fresh_version"]
                labels.add("fresh-version:" + (fv if fv.startswith("__") else "other"))
                st = _make_state(gen["state_shape"], fresh_store(sspec), None, _fresh_version(fv, version))
                res = S.load_latest_snapshot(ctx, st)
                if not isinstance(res, dict) or res.get("path") is None or os.path.abspath(res["path"]) != os.path.abspath(path_ref):
                    V(f"{tag}: load_latest_snapshot read {os.path.basename(res.get('path')) if isinstance(res, dict) and res.get('path') else None!r}"
                      f" instead of {os.path.basename(path_ref)!r} (directory: {listing(snap_dir)})", "discovery-load")
                if res.get("loaded") is not True:
                    V(f"{tag}: load_latest_snapshot reports loaded={res.get('loaded')!r} for a snapshot it has just been given", "load-flag")
                ver = _get(st, "version_etag")
                if ver != str(version) or type(ver) is not str or res.get("version_etag") != version:
                    V(f"{tag}: version after load is state={ver!r} / result={res.get('version_etag')!r}; written {version!r}",
                      "version-restored")
                store = _get(st, "store")
                if store is not None:
                    got = store_content(store, sspec)
                    if not same(got, store_ref):
                        V(f"{tag}: store after load holds {short(got)} but {short(store_ref)} was written", "store-restored")
                    if sspec["kind"] == "w" and list(k for k in store.w) != [(d["target_kind"], d["target_id"], d["attr"]) for d in store_ref["weights"]]:
                        V(f"{tag}: weight map keys after load {list(store.w)} differ from the written ones", "store-restored")
                g = _get(st, "graph")
                if not isinstance(g, dict):
                    V(f"{tag}: state.graph after load is {type(g).__name__}", "graph-restored-shape")
                if not same(g.get("edges"), gel.get("edges")) or not same(g.get("nodes"), gel.get("nodes")):
                    V(f"{tag}: restored graph edges/nodes {short({'edges': g.get('edges'), 'nodes': g.get('nodes')}, 500)} differ from the "
                      f"written ones {short({'edges': gel.get('edges'), 'nodes': gel.get('nodes')}, 500)}", "graph-restored")
                _check_gel_against_ref(f"{tag}: restored state", g.get("edges"), g.get("nodes"), nodes_ref, pairs_ref, V)
                _check_meta(f"{tag}: restored state", g.get("meta"), graph, len(pairs_ref), V, labels)
                return st

            discover("after write 1")
            state1 = load("load 1")

            # ------------------------------------------------------------------ write 2 / load 2 / write 3
            def rewrite(st, tag):
                clock.barrier()
                p = S.write_snapshot(ctx, st, _get(st, "version_etag"), applied, deltas)
                if os.path.abspath(p) != os.path.abspath(path_ref):
                    V(f"{tag}: write_snapshot returned {p!r}", "write-path")
                with open(path_ref, "rb") as f:
                    b = f.read()
                if b != body1:
                    try:
                        d2 = json.loads(b.decode("utf-8"))
                        diff = sorted(k for k in set(doc) | set(d2) if not same(doc.get(k), d2.get(k)))
                        detail = {k: [doc.get(k), d2.get(k)] for k in diff[:2]}
                    except ValueError:
                        diff, detail = ["<not json>"], {}
                    if not detail:  # equal as Python values (1 vs 1.0 vs true, key order): show the bytes
                        i = next((j for j, (x, y) in enumerate(zip(body1, b)) if x != y), min(len(body1), len(b)))
                        detail = {"first_differing_byte": i, "first": body1[max(0, i - 60): i + 40].decode("utf-8", "replace"),
                                  "now": b[max(0, i - 60): i + 40].decode("utf-8", "replace")}
                    V(f"{tag}: snapshot written from the LOADED state differs from the first body in section(s) {diff}: "
                      f"{short(detail, 900)}", "rewrite-differs")
                try:
                    with open(path_ref + ".meta", "r", encoding="utf-8") as f:
                        sd = json.load(f)
                except (OSError, ValueError) as e:
                    V(f"{tag}: sidecar missing/unreadable: {e}", "schema-sidecar")
                if not isinstance(sd, dict) or sd.get("schema_version") != "v1":
                    V(f"{tag}: sidecar {short(sd)} lacks schema_version 'v1'", "schema-sidecar")
                clock.real(path_ref, freeze)

            rewrite(state1, "write 2")
            last_state = state1
            keep1 = copy.deepcopy(_get(state1, "graph"))
            if gen.get("poison", True):
                # whatever the writer / loader handed out or was handed must not be shared with later calls
                _poison_graph(_get(state0, gkey.split("+")[0] if gkey != "both" else "gel"))
                if cycles >= 2:
                    _poison_graph(_get(state1, "graph"))
                    st1 = _get(state1, "store")
                    if isinstance(st1, ExportStore):
                        _poison_deep(st1.data)
                    elif isinstance(st1, WStore):
                        for k in list(st1.w):
                            st1.w[k] = 0.987654
            if cycles >= 2:
                labels |= set(apply_salts(snap_dir, gen["salts2"], agents_seen, clock, f"g{gi}b"))
                discover("after write 2")
                state2 = load("load 2")
                g1, g2 = keep1, _get(state2, "graph")
                if foreign:
                    g1 = _strip_last_update(g1)  # legacy summaries: carried by the loader, never written
                if not same(g1, g2):
                    V(f"second load yields a different graph than the first: {short(g2, 400)} vs {short(g1, 400)}", "reload-differs")
                rewrite(state2, "write 3")
                last_state = state2
            prev_loaded_graph = copy.deepcopy(_strip_last_update(_get(last_state, "graph")))
            prev = {"path": path_ref, "version": version, "gel": gel, "lo": lo, "hi": hi}
    return labels, nontrivial


# =====================================================================================================
# known-finding attribution (by normalisation, never by looking at the failure text)
# =====================================================================================================

def _map_graph(g, f_weight=None, f_id=None):
    if not isinstance(g, dict):
        return g
    g = copy.deepcopy(g)
    fid = f_id or (lambda s: s)

    def rec_map(r):
        r = dict(r)
        r["src"], r["dst"] = fid(r["src"]), fid(r["dst"])
        if "rel" in r and isinstance(r["rel"], str):
            r["rel"] = fid(r["rel"])
        if f_weight is not None and "weight" in r:
            r["weight"] = f_weight(r["weight"])
        if isinstance(r.get("id"), str):
            r["id"] = fid(r["id"])
        return r

    e = g.get("edges")
    if isinstance(e, dict):
        g["edges"] = {fid(k): rec_map(r) for k, r in e.items()}
    elif isinstance(e, list):
        g["edges"] = [rec_map(r) for r in e]
    n = g.get("nodes")
    if isinstance(n, dict):
        g["nodes"] = {fid(k): (dict(v, id=fid(v["id"])) if isinstance(v, dict) and isinstance(v.get("id"), str) else v) for k, v in n.items()}
    elif isinstance(n, list):
        g["nodes"] = [dict(v, id=fid(v["id"])) for v in n]
    return g


def _map_case(case, f_weight=None, f_id=None):
    c = copy.deepcopy(case)
    for gen in c["gens"]:
        if gen.get("graph") is not None:
            gen["graph"] = _map_graph(gen["graph"], f_weight, f_id)
        if gen.get("edit") is not None:
            gen["edit"]["add"] = _map_graph(gen["edit"]["add"], f_weight, f_id)
            if f_weight is not None:
                gen["edit"]["reweigh"] = [[i, f_weight(w)] for i, w in gen["edit"]["reweigh"]]
    return c


def _graph_strings(case):
    out = set()

    def walk(g):
        if not isinstance(g, dict):
            return
        e = g.get("edges")
        recs = list(e.values()) if isinstance(e, dict) else list(e or [])
        if isinstance(e, dict):
            out.update(e.keys())
        for r in recs:
            out.update([r["src"], r["dst"], str(r.get("rel", ""))])
        n = g.get("nodes")
        if isinstance(n, dict):
            out.update(n.keys())
        elif isinstance(n, list):
            out.update(v["id"] for v in n)

    for gen in case["gens"]:
        walk(gen.get("graph"))
        if gen.get("edit"):
            walk(gen["edit"]["add"])
    return out


def normalise_nan(case):
    """NaN edge weights -> 0.0 (what a missing weight defaults to). None if nothing changes."""
    hit = []

    def fw(w):
        if isinstance(w, float) and w != w:
            hit.append(1)
            return 0.0
        return w

    c = _map_case(case, f_weight=fw)
    return c if hit else None


def normalise_underscores(case):
    """Injectively rename '_' inside ids/rels/edge keys to a character that occurs nowhere. None if nothing changes."""
    strings = _graph_strings(case)
    if not any("_" in s for s in strings):
        return None
    sub = next(ch for ch in ["‗", "﹍", "﹎", "﹏", "＿", "⎽"] if not any(ch in s for s in strings))
    return _map_case(case, f_id=lambda s: s.replace("_", sub))


def _try(case):
    try:
        return None, run_history(case)
    except Violation as v:
        return v, None


def check_history(case, rec=None):
    """Run one history; a failure is excused only when it vanishes under the normalisation that removes exactly the
    trigger of a LISTED known finding. Returns (labels, nontrivial)."""
    v0, out = _try(case)
    if v0 is None:
        return out
    lo, hi = float(case["lo"]), float(case["hi"])
    n_nan = normalise_nan(case) if (lo > 0.0 or hi < 0.0) else None
    n_ids = normalise_underscores(case)
    causes = None
    if n_nan is not None:
        v, out1 = _try(n_nan)
        if v is None:
            causes, out = [FID_NAN], out1
    if causes is None and n_ids is not None:
        v, out1 = _try(n_ids)
        if v is None:
            causes, out = [FID_IDS], out1
    if causes is None and n_nan is not None and n_ids is not None:
        both = normalise_underscores(n_nan)
        v, out1 = _try(both)
        if v is None:
            causes, out = [FID_NAN, FID_IDS], out1
    if causes is None:
        raise v0
    for fid in causes:
        if rec is not None and rec.is_known(fid):
            continue
        raise Violation(v0.message, case, fid)
    labels, nt = out
    return set(labels) | {"excused:" + f for f in causes}, nt


def sub_roundtrip(rec, seed, shard, nshards, n=300, max_gens=3, max_edges=6, max_salts=3, shrink=True):
    def body(case):
        labels, nt = check_history(case, rec)
        rec.case(nontrivial=nt, dig=digest(case) if nt else None, labels=sorted(labels),
                 sample={"lo": case["lo"], "hi": case["hi"], "gen0": {k: case["gens"][0].get(k) for k in ("agent", "version", "store", "graph")}}
                 if nt and len(case["gens"]) == 1 and "edges:bulk(>64)" not in labels and "edges:bulk(>128)" not in labels
                 and "store:w-bulk(>64)" not in labels else None)

    run_hypothesis(rec, seed, roundtrip_strategy(max_gens, max_edges, max_salts), body, max_examples=n, shrink=shrink,
                   name="roundtrip")


def replay_roundtrip(case):
    check_history(dec(case), None)


# =====================================================================================================
# discovery
# =====================================================================================================

SNAP_NUMBERS = [["9", "10"], ["000009", "000010"], ["99", "100"], ["2", "10", "9"], ["000099", "100"], ["7"], ["0", "1"],
                ["09", "10", "8"], ["1", "2"]]


def discovery_strategy(max_salts):
    st = _st()

    @st.composite
    def cases(draw):
        n_real = draw(st.sampled_from([0, 1, 1, 2, 2, 3]))
        agents = draw(st.lists(st.sampled_from(AGENTS), min_size=n_real, max_size=n_real, unique=True))
        reals = [{"agent": a, "version": draw(st.sampled_from(VERSIONS)) + f"#{i}",
                  "edge": draw(st.booleans())} for i, a in enumerate(agents)]
        # mtime rank of each real body: a permutation, so the newest is not necessarily the last written
        order = draw(st.permutations(list(range(n_real))))
        salts = draw(salt_strategy(max_salts))
        if not salts or draw(st.booleans()):
            salts = salts + [{"kind": draw(st.sampled_from(["sidecar", "tmp", "meta_tmp"])), "suffix": draw(st.text(alphabet=SUFFIX_ALPHABET, min_size=8, max_size=8)),
                              "content": "body", "target": draw(st.integers(0, 3))}]
        case = {"reals": reals, "order": list(order), "salts": salts, "rewrite_newest": draw(st.booleans()),
                "step_ns": draw(st.sampled_from(CLOCK_STEPS_NS)), "natural_overwrite": draw(st.booleans())}
        # bodies of the two other documented families: numbered snap_<n>.json and the header+payload files of
        # write_snapshot_auto (snapshot-<etag>.full.json[.zst], snapshot-<etag>.delta.json)
        fam = draw(st.sampled_from(["state", "state", "state", "snap", "pr34", "pr34+state", "snap+state"]))
        if "snap" in fam:
            case["snaps"] = [{"n": n, "version": f"S{n}", "edge": draw(st.booleans())}
                             for n in draw(st.permutations(draw(st.sampled_from(SNAP_NUMBERS))))]
        if "pr34" in fam:
            case["autos"] = [{"etag": draw(st.sampled_from(["1", "9", "10", "é", "a.b", "x.json", ""])) + f"@{i}",
                              "compression": draw(st.sampled_from(["none", "none", "zstd"])),
                              "level": draw(st.sampled_from([1, 3, 19])),
                              "delta": draw(st.booleans()), "edge": draw(st.booleans()),
                              "drop_version": draw(st.sampled_from([False, False, True]))}
                             for i in range(draw(st.integers(1, 3)))]
        if fam in ("snap", "pr34"):
            case["reals"], case["order"] = [], []
        return case

    return cases()


def _check_sidecar(path, V):
    side = path + ".meta"
    try:
        with open(side, "r", encoding="utf-8") as f:
            sdoc = json.load(f)
    except (OSError, ValueError) as e:
        V(f"snapshot {os.path.basename(path)!r} was written without a readable sidecar {os.path.basename(side)!r}: {e}", "schema-sidecar")
    if not isinstance(sdoc, dict) or sdoc.get("schema_version") != "v1":
        V(f"sidecar of {os.path.basename(path)!r} holds {short(sdoc)}: no schema_version 'v1'", "schema-sidecar")


def run_discovery(case):
    import logging
    from clematis.engine import snapshot as _S
    from harness import world

    S = _Guarded(_S, case)
    logging.disable(logging.CRITICAL)
    labels = set()
    with _sandbox() as root:
        cfg, snap_dir = make_cfg(-1.0, 1.0, root)
        stage_cfg = copy.deepcopy(cfg)
        stage_cfg["t4"]["snapshot_dir"] = os.path.join(root, "stage")

        def V(msg, sig):
            raise Violation(msg + f"  (directory: {listing(snap_dir)})", case, sig)

        def state_for(owner, edge):
            graph = {"nodes": {}, "edges": {}}
            if edge:
                graph["edges"] = {"a→b": {"id": "a→b", "src": "a", "dst": "b", "weight": 0.5, "rel": "coact", "updated_at": None, "attrs": {}}}
            return {"store": WStore([["node", owner, "weight", 0.25]]), "graph": graph}

        def staged_body(owner, version, edge):
            """A genuine body (bytes) produced by write_snapshot in a side directory."""
            p = S.write_snapshot(world.make_ctx(stage_cfg, agent="stage", turn_id=1), state_for(owner, edge), version, 0, [])
            with open(p, "rb") as f:
                return f.read()

        step = int(case.get("step_ns", 10 * 10 ** 9))
        labels.add("mtime-step:" + ("sub-second" if step < 10 ** 9 else "seconds"))
        base = 2_000_000_000 * 10 ** 9
        # every candidate: {"path", "owner" (who its weights belong to), "version", "t" (mtime ns), "family"}
        cands = []

        # ---- family 3 (lowest priority): header+payload files of write_snapshot_auto -- oldest mtimes
        t = base
        prev_etag = None
        for a in case.get("autos") or []:
            owner = "auto:" + a["etag"]
            payload = json.loads(staged_body(owner, a["etag"], a["edge"]).decode("utf-8"))
            if a.get("drop_version"):
                # header+payload files: the loader documents "body version_etag first, else the header's etag_to"
                payload.pop("version_etag", None)
                labels.add("auto:version-only-in-header")
            p, was_delta = S.write_snapshot_auto(snap_dir, etag_from=prev_etag, etag_to=a["etag"], payload=payload,
                                                 compression=a["compression"], level=a["level"],
                                                 delta_mode=bool(a["delta"] and prev_etag is not None))
            if not os.path.isfile(p):
                V(f"write_snapshot_auto returned {p!r} which does not exist", "write-path")
            _check_sidecar(p, V)  # every snapshot written carries the frozen schema marker
            # ... and round-trips: whatever codec was asked for, the file just written is read back to the payload
            # (a requested codec whose module is missing must degrade to a READABLE file)
            back = S.read_snapshot(path=p)
            if not same(back, payload):
                V(f"write_snapshot_auto(compression={a['compression']!r}) wrote {os.path.basename(p)!r} but read_snapshot(path=...) "
                  f"gives {short(back)} instead of the payload {short(payload)}", "auto-readback")
            if a["compression"] == "zstd" and getattr(_S, "_zstd", None) is None:
                labels.add("auto:zstd-requested-module-missing")
            labels.add("auto:" + ("delta" if was_delta else "full") + ("+zstd-requested" if a["compression"] == "zstd" else ""))
            t += step
            os.utime(p, ns=(t, t))
            os.utime(p + ".meta", ns=(t, t))
            if p.endswith(".json"):
                cands.append({"path": p, "owner": owner, "version": a["etag"], "t": t, "family": "auto", "edge": a["edge"],
                              "no_info": bool(was_delta or a.get("drop_version"))})
                if not was_delta:
                    prev_etag = a["etag"]
            else:
                labels.add("auto:compressed-name-not-a-candidate")

        # ---- family 2: per-agent state_<agent>.json bodies
        reals = case["reals"]
        paths = []
        for r in reals:
            ctx = world.make_ctx(cfg, agent=r["agent"], turn_id=1)
            paths.append(S.write_snapshot(ctx, state_for(r["agent"], r["edge"]), r["version"], 0, []))
            _check_sidecar(paths[-1], V)
        # explicit mtimes: rank order[i] for real i (distinct)
        t0 = t + step
        newest = None
        for i, p in enumerate(paths):
            ti = t0 + step * (case["order"][i] + 1)
            os.utime(p, ns=(ti, ti))
            os.utime(p + ".meta", ns=(ti, ti))
            t = max(t, ti)
            cands.append({"path": p, "owner": reals[i]["agent"], "version": reals[i]["version"], "t": ti, "family": "state",
                          "edge": reals[i]["edge"]})
            if case["order"][i] == len(paths) - 1:
                newest = i
        if reals and newest != len(reals) - 1:
            labels.add("newest-is-not-last-written")
        if any(not r["agent"].isalnum() for r in reals):
            labels.add("agent:punctuated")

        # ---- family 1 (highest priority): numbered snap_<n>.json; the larger number is also the newer file
        snaps = case.get("snaps") or []
        for sn in sorted(snaps, key=lambda x: int(x["n"])):
            p = os.path.join(snap_dir, f"snap_{sn['n']}.json")
            with open(p, "wb") as f:
                f.write(staged_body("snap:" + sn["n"], sn["version"], sn["edge"]))
            t += step
            os.utime(p, ns=(t, t))
            cands.append({"path": p, "owner": "snap:" + sn["n"], "version": sn["version"], "t": t, "family": "snap", "edge": sn["edge"]})
        if snaps:
            digits = {len(str(int(sn["n"]))) for sn in snaps}
            labels.add("snap-numbered:" + ("digit-boundary" if len(digits) > 1 else "same-width"))

        clock = Clock()
        clock.t = t + 1000 * 10 ** 9
        agents = [r["agent"] for r in reals]
        labels |= set(apply_salts(snap_dir, case["salts"], agents, clock, "d"))
        labels.add(f"real-bodies:{min(len(cands), 4)}")
        labels.add("families:" + "+".join(sorted({c["family"] for c in cands})) if cands else "families:none")
        nontrivial = any(s["kind"] in SIDECARISH or s["kind"] in TEMPISH for s in case["salts"])

        # 'latest': by construction the documented family order (snap_<n> by number, then state_* by mtime, then any *.json
        # by mtime) and plain mtime order agree, so the expectation does not depend on which of the two one reads into it
        best = max(cands, key=lambda c: c["t"]) if cands else None
        expected = os.path.abspath(best["path"]) if best else None
        picked = S._pick_latest_snapshot_path(snap_dir)
        if (os.path.abspath(picked) if picked else None) != expected:
            V(f"_pick_latest_snapshot_path chose {os.path.basename(picked) if picked else None!r}; expected "
              f"{os.path.basename(expected) if expected else None!r} (newest real snapshot body)", "discovery-pick")
        info = S.get_latest_snapshot_info(snap_dir)
        if best:
            if not isinstance(info, dict) or os.path.abspath(str(info.get("path"))) != expected:
                V(f"get_latest_snapshot_info -> {short(info)}; expected the body {os.path.basename(expected)!r}", "discovery-info")
            # (the metadata probe does not reconstruct deltas: its fields are only asserted for full bodies)
            if not best.get("no_info") and (info.get("version_etag") != best["version"] or info.get("schema_version") != "v1"):
                V(f"get_latest_snapshot_info reports version {info.get('version_etag')!r} / schema {info.get('schema_version')!r}; "
                  f"the newest body holds {best['version']!r} / 'v1'", "info-fields")
        elif info is not None:
            V(f"get_latest_snapshot_info -> {short(info)} although the directory holds no snapshot body", "discovery-info")

        ctx = world.make_ctx(cfg, agent=(reals[0]["agent"] if reals else "A"), turn_id=1)
        store = WStore()
        st = {"store": store, "version_etag": "untouched"}
        res = S.load_latest_snapshot(ctx, st)
        if best:
            if res.get("path") is None or os.path.abspath(res["path"]) != expected:
                V(f"load_latest_snapshot read {os.path.basename(res['path']) if res.get('path') else None!r}; expected "
                  f"{os.path.basename(expected)!r}", "discovery-load")
            if res.get("loaded") is not True or st.get("version_etag") != best["version"]:
                V(f"load_latest_snapshot: loaded={res.get('loaded')!r}, version {st.get('version_etag')!r}; the newest body holds "
                  f"{best['version']!r}", "version-restored")
            if store.w != {("node", best["owner"], "weight"): 0.25}:
                V(f"load_latest_snapshot restored weights {store.w!r} — not those of the newest body "
                  f"({best['owner']!r})", "store-restored")
            got_e = (st.get("graph") or {}).get("edges")
            want_e = {"a→b": {"id": "a→b", "src": "a", "dst": "b", "weight": 0.5, "rel": "coact", "updated_at": None, "attrs": {}}} if best["edge"] else {}
            if not same(got_e, want_e):
                V(f"load_latest_snapshot restored edges {short(got_e)} — the newest body ({best['owner']!r}) holds {short(want_e)}",
                  "graph-restored")
        else:
            if res.get("loaded") or res.get("path") is not None or st.get("version_etag") != "untouched" or store.w:
                V(f"no snapshot body in the directory, yet load_latest_snapshot -> {short(res)} and version "
                  f"{st.get('version_etag')!r}, weights {store.w!r}", "discovery-load-salt")
            labels.add("only-salts")
        if reals and not snaps and case["rewrite_newest"]:
            # rewriting through the atomic writer must not leave anything discovery could trip over
            r = reals[newest]
            ctx = world.make_ctx(cfg, agent=r["agent"], turn_id=2)
            st2 = {"store": WStore([["node", r["agent"], "weight", 0.25]]), "graph": {"nodes": {}, "edges": {}}}
            p = S.write_snapshot(ctx, st2, r["version"] + "'", 0, [])
            far = clock.t + 5_000_000 * 10 ** 9
            os.utime(p, ns=(far, far))
            got = S._pick_latest_snapshot_path(snap_dir)
            if got is None or os.path.abspath(got) != os.path.abspath(p):
                V(f"after rewriting {os.path.basename(p)!r} discovery chose {os.path.basename(got) if got else None!r}", "discovery-pick")
            labels.add("rewrite")
        if reals and not snaps and case.get("natural_overwrite"):
            # The mtime the WRITER leaves: every real body is moved into the past (same order), then the OLDEST state_*
            # body is replaced through write_snapshot and its mtime is NOT touched by the harness. It is the snapshot
            # written last, so it is the latest one -- a writer that hands the replaced file's timestamps on to the new
            # file leaves it the oldest.
            shift = 1_500_000_000 * 10 ** 9
            for c in cands:
                os.utime(c["path"], ns=(c["t"] - shift, c["t"] - shift))
            oldest = min(range(len(reals)), key=lambda i: case["order"][i])
            r = reals[oldest]
            ctx = world.make_ctx(cfg, agent=r["agent"], turn_id=2)
            p = S.write_snapshot(ctx, state_for(r["agent"], r["edge"]), r["version"] + "''", 0, [])
            got = S._pick_latest_snapshot_path(snap_dir)
            if got is None or os.path.abspath(got) != os.path.abspath(p):
                V(f"{os.path.basename(p)!r} has just been replaced by a new snapshot (all other bodies are years older), yet "
                  f"discovery chose {os.path.basename(got) if got else None!r}; mtime left by the writer: "
                  f"{os.stat(p).st_mtime_ns} ns", "discovery-pick-after-overwrite")
            st3 = {"store": WStore(), "version_etag": "untouched"}
            res3 = S.load_latest_snapshot(ctx, st3)
            if res3.get("loaded") is not True or st3.get("version_etag") != r["version"] + "''":
                V(f"after {os.path.basename(p)!r} was replaced, load_latest_snapshot restored version {st3.get('version_etag')!r}; "
                  f"the snapshot written last holds {r['version'] + chr(39) * 2!r}", "version-restored")
            labels.add("natural-overwrite:oldest-of-%d" % min(len(reals), 3))
    return labels, nontrivial


def sub_discovery(rec, seed, shard, nshards, n=150, max_salts=5, shrink=True):
    def body(case):
        labels, nt = run_discovery(case)
        rec.case(nontrivial=nt, dig=digest(case) if nt else None, labels=sorted(labels),
                 sample={"reals": case["reals"], "order": case["order"], "salts": [salt_name(s, [r["agent"] for r in case["reals"]]) for s in case["salts"]]}
                 if nt else None)

    run_hypothesis(rec, seed, discovery_strategy(max_salts), body, max_examples=n, shrink=shrink, name="discovery")


def replay_discovery(case):
    run_discovery(dec(case))


# =====================================================================================================
# known-finding probes: the minimal failing inputs, re-executed on every run
# =====================================================================================================

def _gen(graph, **kw):
    g = {"agent": "A", "version": "1", "turn": 1, "applied": 0, "deltas": [], "store": {"kind": "absent"},
         "state_shape": "dict", "fresh_version": "__absent__", "salts": [], "salts2": [], "base": "new", "graph": graph}
    g.update(kw)
    return g


PROBE_CASES = {
    FID_NAN: {"lo": 0.2, "hi": 0.8, "gens": [_gen({"edges": [{"src": "a", "dst": "b", "weight": math.nan}]})]},
    FID_IDS: {"lo": -1.0, "hi": 1.0, "gens": [_gen({"edges": [{"src": "a__b", "dst": "c", "weight": 0.5},
                                                              {"src": "a", "dst": "b__c", "weight": 0.25}]})]},
}


def _probe(fid):
    try:
        check_history(copy.deepcopy(PROBE_CASES[fid]), None)
    except Violation as v:
        return v.sig == fid
    return False


KNOWN_PROBES = {
    FID_NAN: lambda: _probe(FID_NAN),
    FID_IDS: lambda: _probe(FID_IDS),
}


SUBCHECKS = [
    Sub("roundtrip", sub_roundtrip, quick={"n": 400, "max_gens": 3, "max_edges": 6, "max_salts": 3},
        thorough={"n": 2000, "max_gens": 3, "max_edges": 10, "max_salts": 4}, shards_quick=4, shards_thorough=16,
        replay=replay_roundtrip),
    Sub("discovery", sub_discovery, quick={"n": 150, "max_salts": 5}, thorough={"n": 1000, "max_salts": 8},
        shards_quick=2, shards_thorough=8, replay=replay_discovery),
]
