"""Independent reference propagator for C12, written from the documented spreading rule
(docs + t1 docstrings): best-first by |contribution| (tie: node id, then signed value) kept in a plain sorted
list — no heapq, no caches, no perf caps.  Validated against the tree at design time (DESIGN.md App. A)."""
from __future__ import annotations

EPS = 1e-6
DEFAULT_MULT = {"supports": 1.0, "associates": 0.6, "contradicts": 0.8}


def decay(d, dec):
    dec = dec or {}
    mode = dec.get("mode", "exp_floor")
    if mode == "attn_quad":
        return 1.0 / (1.0 + float(dec.get("alpha", 0.8)) * (d ** 2))
    return max(float(dec.get("rate", 0.6)) ** d, float(dec.get("floor", 0.05)))


def keywords(node):
    kws = []
    if node.get("label"):
        kws.append(node["label"])
    for t in node.get("tags") or []:
        if isinstance(t, str) and t:
            kws.append(t)
    return kws


def ref_seeds(spec, text):
    t = text.lower()
    return sorted({n["id"] for n in spec["nodes"] for kw in keywords(n) if kw.lower() in t})


ZERO = {"pops": 0, "iters": 0, "propagations": 0, "radius_cap_hits": 0, "layer_cap_hits": 0, "node_budget_hits": 0}


def effective_caps(cfg, slice_caps):
    qb = int(cfg.get("queue_budget", 10000))
    layers = min(int(cfg.get("iter_cap_layers", 50)), int(cfg.get("iter_cap", 50)))
    sc = slice_caps or {}
    if sc.get("t1_iters") is not None:
        layers = min(layers, int(sc["t1_iters"]))
    if sc.get("t1_pops") is not None:
        qb = min(qb, int(sc["t1_pops"]))
    return qb, layers


def ref_one_graph(spec, text, cfg, slice_caps=None):
    """Returns (ids ascending, counters). spec as built by harness.world.graph_specs."""
    seeds = ref_seeds(spec, text)
    if not seeds:
        return [], dict(ZERO)
    mult = cfg.get("edge_type_mult", DEFAULT_MULT)
    nb = float(cfg.get("node_budget", 1.5))
    rc = int(cfg.get("radius_cap", 4))
    relax = cfg.get("relax_cap")
    qb, layers = effective_caps(cfg, slice_caps)
    # last definition of an edge id wins (the store is a dict keyed by edge id); order = first insertion
    emap = {}
    for e in spec["edges"]:
        emap[e["id"]] = e
    out = {}
    for e in emap.values():
        out.setdefault(e["src"], []).append((e["dst"], float(e["w"]), e["rel"]))
    acc, dist, frontier = {}, {}, []
    for s in seeds:
        frontier.append((-1.0, s, 1.0))
        acc[s] = acc.get(s, 0.0) + 1.0
        dist[s] = 0
    pops = props = lp = rh = lh = nh = 0
    stop = False
    while frontier and pops < qb and not stop:
        frontier.sort()
        _, u, w = frontier.pop(0)
        pops += 1
        layer = dist.get(u, 0)
        if layer > 0 and layer > lp:
            lp = layer
            if lp > layers:
                continue
        if abs(acc.get(u, 0.0)) >= nb:
            nh += 1
            continue
        for v, ew, rel in out.get(u, []):
            if relax is not None and props >= int(relax):
                stop = True
                break
            d = dist[u] + 1
            if d > rc:
                rh += 1
                continue
            if d > layers:
                lh += 1
                continue
            c = w * ew * float(mult.get(rel, 0.6)) * decay(d, cfg.get("decay"))
            if abs(c) < EPS:
                continue
            acc[v] = acc.get(v, 0.0) + c
            props += 1
            if v not in dist or d < dist[v]:
                dist[v] = d
            if abs(acc[v]) < nb:
                frontier.append((-abs(c), v, c))
            else:
                nh += 1
            if relax is not None and props >= int(relax):
                stop = True
                break
    ids = [n for n in sorted(acc) if abs(acc[n]) >= EPS]
    return ids, {"pops": pops, "iters": min(lp, layers), "propagations": props, "radius_cap_hits": rh,
                 "layer_cap_hits": lh, "node_budget_hits": nh}


def reachable_within(spec, seeds, hops):
    """Nodes reachable from `seeds` along edge direction within `hops` hops (hop-count BFS, independent of weights)."""
    emap = {}
    for e in spec["edges"]:
        emap[e["id"]] = e
    out = {}
    for e in emap.values():
        out.setdefault(e["src"], set()).add(e["dst"])
    seen = set(seeds)
    frontier = set(seeds)
    for _ in range(max(0, hops)):
        nxt = set()
        for u in frontier:
            nxt |= out.get(u, set())
        nxt -= seen
        if not nxt:
            break
        seen |= nxt
        frontier = nxt
    return seen
