"""Observation layer: run turns of the real orchestrator inside a sandbox and collect what the properties name —
utterances, canonical stream bytes (sandbox path normalised), snapshot bodies, directory listings, state digests and
the (t1, t2, t4, apply) objects each turn really used."""
from __future__ import annotations

import contextlib
import copy
import json
import os
from typing import Any, Dict, List, Optional

from harness import world

CANONICAL = ["t1.jsonl", "t2.jsonl", "t4.jsonl", "apply.jsonl", "turn.jsonl", "health.jsonl"]
NONCANONICAL_TIMED = ["t3.jsonl", "t3_plan.jsonl", "t3_dialogue.jsonl", "gel.jsonl"]  # raw ms* even under CI=true

T1_COUNTERS = ["pops", "iters", "propagations", "radius_cap_hits", "layer_cap_hits", "node_budget_hits", "graphs_touched"]


def t1_view(t1) -> Any:
    m = getattr(t1, "metrics", {}) or {}
    return {"deltas": [dict(d) for d in getattr(t1, "graph_deltas", [])], "counters": {k: m.get(k) for k in T1_COUNTERS}}


def t2_view(t2, with_text: bool = True) -> Any:
    m = getattr(t2, "metrics", {}) or {}
    hits = []
    for r in getattr(t2, "retrieved", []) or []:
        rid = r.get("id") if isinstance(r, dict) else getattr(r, "id", None)
        sc = r.get("score") if isinstance(r, dict) else getattr(r, "score", None)
        tx = r.get("text") if isinstance(r, dict) else getattr(r, "text", None)
        hits.append((str(rid), float(sc) if sc is not None else None) + ((tx,) if with_text else ()))
    return {"retrieved": hits, "residual": [dict(d) for d in getattr(t2, "graph_deltas_residual", [])],
            "k_returned": m.get("k_returned"), "k_used": m.get("k_used"), "tier_sequence": list(m.get("tier_sequence") or []),
            "owner_scope": m.get("owner_scope")}


def build_state(w: dict) -> dict:
    """w: {"graphs": {gid: spec}, "eps": [...], "gel": {...}|None, "version": "0"|None}"""
    state: Dict[str, Any] = {"_boot_loaded": True}
    state["store"] = world.build_store(w.get("graphs") or {})
    state["active_graphs"] = list((w.get("graphs") or {}).keys())
    idx = world.build_index(w.get("eps") or [])
    state["mem_index"] = idx
    state["memory_index"] = idx  # the reflection writer looks under this key
    state["mem_backend"] = "inmemory"
    if w.get("gel") is not None:
        state["graph"] = copy.deepcopy(w["gel"])
    if w.get("version") is not None:
        state["version_etag"] = str(w["version"])
    return state


def _plain(x):
    try:
        return json.loads(json.dumps(x, sort_keys=True, default=repr, ensure_ascii=False))
    except Exception:
        return repr(x)


def state_digest(state: dict) -> Any:
    out = {"version_etag": state.get("version_etag"), "active_graphs": list(state.get("active_graphs") or [])}
    if state.get("store") is not None and hasattr(state["store"], "_graphs"):
        out["store"] = world.store_digest(state["store"])
    if state.get("mem_index") is not None:
        out["index"] = world.index_digest(state["mem_index"])
    if "graph" in state:
        out["gel"] = _plain(state["graph"])
    for k in ("meta", "_chat_last_retrieved", "_planner_reflection_flag"):
        if k in state:
            out[k] = _plain(state[k])
    return out


def read_tree(root: str, sub: str) -> Dict[str, bytes]:
    """relative path -> bytes for every file under root/sub; the sandbox root is replaced by <ROOT> in contents."""
    base = os.path.join(root, sub)
    out: Dict[str, bytes] = {}
    rb = root.encode()
    for dp, _, fns in os.walk(base):
        for fn in sorted(fns):
            p = os.path.join(dp, fn)
            with open(p, "rb") as f:
                data = f.read()
            out[os.path.relpath(p, base)] = data.replace(rb, b"<ROOT>")
    return out


class Engine:
    """One engine state living in a sandbox directory `root` (created by harness.world.sandbox)."""

    def __init__(self, w: dict, root: str, encoder: Optional[Any] = "bow"):
        self.root = root
        self.state = build_state(w)
        self.agents = dict(w.get("agents") or {})  # agent -> [gid]
        self.encoder = world.BowEncoder() if encoder == "bow" else encoder
        self.used: List[dict] = []  # per turn: what the turn really used

    def cfg(self, overrides: Optional[dict] = None):
        o = world.deep_merge(overrides or {}, {"t4": {"snapshot_dir": os.path.join(self.root, "snap")}})
        return world.validated_cfg(o)

    def turn(self, agent: str, text: str, cfg, turn_id: Any, now_ms: int, ctx_extra: Optional[dict] = None):
        """Run one real turn. Returns dict(line=..., exc=..., used={t1,t2,t4,apply views}, ctx=ctx)."""
        from clematis.engine.orchestrator import Orchestrator

        if agent in self.agents:
            self.state["active_graphs"] = list(self.agents[agent])
        ctx = world.make_ctx(cfg, agent=agent, turn_id=turn_id, now_ms=now_ms)
        if self.encoder is not None:
            ctx.enc = self.encoder
        for k, v in (ctx_extra or {}).items():
            setattr(ctx, k, v)
        rec: Dict[str, Any] = {"turn": turn_id, "agent": agent}
        with capture_used(rec):
            try:
                res = Orchestrator().run_turn(ctx, self.state, text)
                rec["line"] = res.line
                rec["exc"] = None
            except Exception as e:  # the caller decides whether raising is a violation
                rec["line"] = None
                rec["exc"] = f"{type(e).__name__}: {e}"
                rec["exc_obj"] = e
        rec["ctx"] = ctx
        self.used.append(rec)
        return rec

    def logs(self) -> Dict[str, bytes]:
        return read_tree(self.root, "logs")

    def snaps(self) -> Dict[str, bytes]:
        return read_tree(self.root, "snap")

    def listing(self) -> List[str]:
        out = []
        for sub in ("logs", "snap", "cwd"):
            out.extend(sorted(f"{sub}/{p}" for p in read_tree(self.root, sub)))
        return out


@contextlib.contextmanager
def capture_used(rec: dict):
    """Wrap health.check_and_log and core.t4_filter to see the (t1, t2, t4, apply) objects a turn really used
    (this also sees T2 results served from the turn-level cache, which wrapping t2_semantic would miss)."""
    import clematis.engine.health as health
    import clematis.engine.orchestrator.core as core

    orig_h = health.check_and_log
    orig_t4 = core.t4_filter

    def h(ctx, state, t1, t2, t4, apply, log_fn):
        rec["t1"] = t1_view(t1)
        rec["t2"] = t2_view(t2)
        rec["t1_obj"], rec["t2_obj"] = t1, t2
        rec["approved"] = [(d.target_kind, d.target_id, d.attr, d.delta) for d in getattr(t4, "approved_deltas", []) or []]
        rec["reasons"] = list(getattr(t4, "reasons", []) or [])
        rec["apply"] = {"applied": getattr(apply, "applied", None), "version_etag": getattr(apply, "version_etag", None),
                        "snapshot_path": getattr(apply, "snapshot_path", None)}
        rec["completed"] = True
        return orig_h(ctx, state, t1, t2, t4, apply, log_fn)

    def f(ctx, state, t1, t2, plan, utter):
        rec.setdefault("t1", t1_view(t1))
        rec.setdefault("t2", t2_view(t2))
        rec["t1_obj"], rec["t2_obj"] = t1, t2
        rec["plan"] = plan
        r = orig_t4(ctx, state, t1, t2, plan, utter)
        rec["t4_obj"] = r
        # the approved list AS RETURNED by the meta-filter (a copy: later in-place edits of the result are visible by comparison)
        rec["approved_at_filter"] = list(getattr(r, "approved_deltas", []) or [])
        return r

    # stage wrappers on the orchestrator module (the lookup surface run_turn uses): results are captured even when the
    # turn yields at a stage boundary (no health / t4 call); the turn-level cache lookup is observed as well
    import clematis.engine.orchestrator as orch
    import clematis.engine.cache as cache_mod

    orig_t1 = getattr(orch, "t1_propagate")
    orig_t2 = getattr(orch, "t2_semantic")
    orig_get = cache_mod.CacheManager.get
    rec.setdefault("t2_calls", 0)

    def w1(ctx, state, text):
        r = orig_t1(ctx, state, text)
        rec["t1"] = t1_view(r)
        rec["t1_obj"] = r
        return r

    def w2(ctx, state, text, t1):
        r = orig_t2(ctx, state, text, t1)
        rec["t2_calls"] += 1
        if "t2" not in rec:  # the first call is the turn's main retrieval (a later one is the RAG refinement)
            rec["t2"] = t2_view(r)
            rec["t2_obj"] = r
        return r

    def wget(self, namespace, key):
        hit, val = orig_get(self, namespace, key)
        if hit and namespace == "t2:semantic" and "t2" not in rec:
            rec["t2"] = t2_view(val)
            rec["t2_obj"] = val
            rec["turn_cache_hit"] = True
        return hit, val

    health.check_and_log = h
    core.t4_filter = f
    orch.t1_propagate = w1
    orch.t2_semantic = w2
    cache_mod.CacheManager.get = wget
    try:
        yield rec
    finally:
        health.check_and_log = orig_h
        core.t4_filter = orig_t4
        orch.t1_propagate = orig_t1
        orch.t2_semantic = orig_t2
        cache_mod.CacheManager.get = orig_get


def canonical(logs: Dict[str, bytes]) -> Dict[str, bytes]:
    return {k: v for k, v in logs.items() if k in CANONICAL}


def mask_scheduler(data: bytes) -> bytes:
    """scheduler.jsonl with consumed.ms masked (the only wall-clock field of a budget-driven yield)."""
    out = []
    for ln in data.splitlines():
        try:
            o = json.loads(ln)
            if isinstance(o.get("consumed"), dict) and "ms" in o["consumed"]:
                o["consumed"]["ms"] = 0
            out.append(json.dumps(o, ensure_ascii=False, sort_keys=True))
        except Exception:
            out.append(ln.decode("utf-8", "replace"))
    return "\n".join(out).encode()


def line_counts(logs: Dict[str, bytes]) -> Dict[str, int]:
    return {k: v.count(b"\n") for k, v in logs.items()}
