"""atheris / libFuzzer byte target for C14 (validator totality, purity, API/CLI agreement, documented ranges).

Run by checks/c14.py:sub_atheris in a child process (atheris.Fuzz() never returns, libFuzzer calls exit()):
    python fuzz/c14_validate_fuzz.py -runs=N -seed=S <writable corpus dir> [/verif/corpus/C14]
Env: C14_FUZZ_OUT   directory receiving stats.json (generator coverage) and failure.json (first violation)
     C14_FUZZ_KNOWN comma list of finding ids listed as known (their failures are counted, not reported)
The bytes are decoded by checks.c14.decode_bytes into the same shapes the Hypothesis generator builds; the oracle is
checks.c14.check_total — exactly the one the `total` sub-check uses. Exit code 77 = violation (failure.json written).
"""
import json
import os
import sys
import tempfile

import atheris

with atheris.instrument_imports(include=["configs.validate"]):
    import configs.validate  # noqa: F401

from checks.c14 import decode_bytes, check_total, enc, is_nontrivial  # noqa: E402
from harness.runner import Violation, digest  # noqa: E402

OUT = os.environ.get("C14_FUZZ_OUT") or "."
KNOWN = set(filter(None, (os.environ.get("C14_FUZZ_KNOWN") or "").split(",")))
STATS = {"execs": 0, "labels": {}, "excluded": {}, "nontrivial": []}
_NT = set()
NT_CAP = 20000
TMP = tempfile.mkdtemp(prefix="c14_fz_cli_", dir=OUT)


class _Rec:
    known = KNOWN

    def is_known(self, fid):
        if fid in KNOWN:
            STATS["excluded"][fid] = STATS["excluded"].get(fid, 0) + 1
            return True
        return False


REC = _Rec()


def _flush():
    STATS["nontrivial"] = sorted(_NT)
    tmp = os.path.join(OUT, "stats.json.tmp")
    with open(tmp, "w", encoding="utf-8") as f:
        json.dump(STATS, f)
    os.replace(tmp, os.path.join(OUT, "stats.json"))


def TestOneInput(data: bytes):
    STATS["execs"] += 1
    cfg, labels = decode_bytes(data)
    try:
        # the in-process CLI oracle (yaml dump/load + 3 main() calls) on every 8th input; the API oracles on all
        _view, out_labels = check_total(cfg, REC, TMP, labels, with_cli=(STATS["execs"] % 8 == 0))
    except Violation as v:
        with open(os.path.join(OUT, "failure.json"), "w", encoding="utf-8") as f:
            json.dump({"case": v.case, "sig": v.sig, "message": v.message, "input_hex": data.hex()}, f)
        _flush()
        sys.stdout.flush()
        os._exit(77)
    lab = STATS["labels"]
    for lb in out_labels:
        lab[lb] = lab.get(lb, 0) + 1
    if is_nontrivial(labels):
        lab["nontrivial_execs"] = lab.get("nontrivial_execs", 0) + 1
        if len(_NT) < NT_CAP:
            _NT.add(digest(enc(cfg)))
    if STATS["execs"] % 500 == 0 or STATS["execs"] >= RUNS:
        _flush()


def _runs(argv):
    for a in argv:
        if a.startswith("-runs="):
            return int(a.split("=", 1)[1])
    return 1 << 62


RUNS = _runs(sys.argv)

if __name__ == "__main__":
    atheris.Setup(sys.argv, TestOneInput)
    atheris.Fuzz()
