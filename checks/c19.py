"""C19 — reflection is gated, budgeted and cannot disturb the turn.

Three sub-checks, all on the real code:

* ``turns``  — generated sequences of real turns (observe.Engine -> Orchestrator.run_turn) with a per-turn gate
  triple, reflection settings, backend, compute mode (real / raising / custom stage callable returning n entries),
  scripted clock jump against ``time_ms_reflection``, memory-index ``add`` faults, telemetry faults and LLM fixture
  states.  Every turn is executed in the ON world and, from a deep copy of the same pre-state, in a TWIN world whose only
  difference is ``t3.allow_reflection=false`` (and no faults).  LLM turns get a recording pre-pass (third world, empty
  fixture file) that learns the prompt hash the code computes; that pre-pass doubles as a missing-fixture case.
* ``purity`` — groups of single open-gate turns in fresh worlds that share / differ in agent, turn, slot, text, turn
  clock, wall clock and unrelated state; pairwise functional + injective relation on the written ids / timestamps.
* ``unit``   — reflect() + write_reflection_entries() called directly over a much wider text space (all Unicode
  whitespace classes, punctuation, empty) for the token limit and the entry cap; the writer is fed up to 8 surplus
  candidates (with fields of their own) and writes into dict- / object-shaped states and a state with a second index.
* ``gate``   — 1-5 direct calls of the gated helper + writer (the composition the repo's reflection tests use) on ONE
  dict- or object-shaped state with new / reused ctx objects: every combination of allow_reflection, plan object kind,
  state flag (absent / None / False / True), dry marker (absent / False / True) and configuration location (ctx.cfg,
  ctx.config, only on the state — a cfg left on the state by an earlier step stays there).
* ``plan_flag`` — the real LLM policy 2-6 times on one policy state (object or dict), then the real gate.

Hardening (blind-spot review): turns now also draws ctx object lifetime (fresh per turn / one object per agent kept
across turns), memory_index and mem_index as one or two objects, the six plan-object x state-flag combinations, the dry
marker explicitly False, up to 8 custom-stage candidates as dataclass or plain result with entry-own id/ts/owner fields,
failures before the compute step and at the writer entry point, counts the helper steps behind the gate, and compares the
records appended to EVERY stream, new files and state keys with the twin on a closed gate.
"""
from __future__ import annotations

import contextlib
import copy
import json
import os
import sys

from hypothesis import strategies as st

from harness.runner import Sub, Violation, run_hypothesis, digest, jsonable
from harness import world, observe

LEVEL = "exploration"
RULE = ("turns: Hypothesis-generated worlds (graph, 0-5 episodes with unicode/punctuation/empty text; memory_index and mem_index "
        "one object or two) x 1-4 real turns on ONE state through a fresh ctx per turn or one ctx object per agent kept "
        "across turns, each with gate inputs (allow_reflection x {state flag True/False/absent x Plan.reflection on the plan "
        "object} x dry run / marker explicitly False / absent, with and without the t4 kill switch), backend rulebased/llm, "
        "summary_tokens 0..4096, ops_reflection 0..1000/null, topk_snippets 0..10, embed, log, time_ms_reflection 1..1e9/null "
        "with a scripted clock jump under/over it, compute real / raising (8 exception types, before or after the real "
        "call) / custom stage callable returning 0-8 entries as dataclass or plain object (entries may carry id/ts/owner of "
        "their own), failure before the compute step (snippet extraction / bundle), index.add fault patterns / writer entry "
        "point failing / state without memory_index, embedding adapter fault, telemetry faults at 3 "
        "sites, fixture file ok/absent/empty/garbage/other/blank (hash learnt by a recording pre-pass); every turn also runs in a twin world (same pre-state, allow_reflection=false). Non-trivial = a turn with "
        "an open gate that wrote a non-empty summary, or an open gate with an injected failure. "
        "gate: 1-5 direct helper+writer calls on one dict/object state, new or reused ctx, all gate-input combinations; "
        "non-trivial = an open-gate step that wrote or had a failure/timeout injected. "
        "plan_flag: real LLM policy 2-6 times on one object/dict policy state; non-trivial = a fallback after a request. "
        "purity: 2-5 open-gate single turns per case drawn so that keys (agent, turn, slot, text) collide and differ in "
        "exactly one component; non-trivial = at least one equal-key pair and one differing pair of written entries. "
        "unit: direct reflect()+writer calls; non-trivial = non-empty summary produced. Distinct = digest of the case.")
ASSUMPTIONS = [
    "the twin world (deep copy of the pre-turn state, allow_reflection=false, same stage patches) is the reference for "
    "'the same turn with reflection off'; process-global stage caches are reset before every run so both start cold",
    "ctx.now_ms (the logical turn clock supplied by the driver) counts as part of the turn identity: timestamps are "
    "compared only between runs with the same now_ms; the wall clock (perf_counter as seen by core, real time) differs",
    "sha256-prefix ids do not collide inside one case (a collision would be reported as id-collision)",
    "only safety is asserted for an open gate (upper bounds, nothing written on error/timeout); that reflection does "
    "write on the fault-free path is measured by the non-trivial labels, not asserted",
    "a fault-free index.add appends exactly the entry it is given (InMemoryIndex); the add-fault double raises before "
    "touching the index",
    "timeout is expected only when the scripted clock jump exceeds the budget by >= 1 ms, and ruled out only when it "
    "stays >= 1 ms below it",
    "a driver that keeps one ctx object across turns updates turn_id, now, now_ms, cfg/config and the dry-run marker in "
    "place and touches nothing else on it (the repo's multi-turn tests reuse a ctx the same way); the twin world does the "
    "same with its own object",
    "on a closed gate the run must be indistinguishable from the twin (records per stream, new files, state keys); on an "
    "open gate only the canonical streams, stage results, snapshots, store and utterance are compared",
    "entries found in state['mem_index'] when it is another object than state['memory_index'] count towards the cap",
]


KNOWN_PROBES = {}

AGENTS = ["A", "B", "Zoë"]
QUERIES = ["apple", "pear", "apple pear", "kiwi", "zzz", ""]
REFL_LOG = "t3_reflection.jsonl"


class _Custom(Exception):
    pass


def _exc_types():
    refl = sys.modules.get("clematis.engine.stages.t3.reflect")
    if refl is None:
        import importlib
        refl = importlib.import_module("clematis.engine.stages.t3.reflect")
    return {"ValueError": ValueError, "KeyError": KeyError, "TypeError": TypeError, "RuntimeError": RuntimeError,
            "OSError": OSError, "ZeroDivisionError": ZeroDivisionError, "Custom": _Custom,
            "FixtureMissingError": refl.FixtureMissingError}


EXC_NAMES = ["ValueError", "KeyError", "TypeError", "RuntimeError", "OSError", "ZeroDivisionError", "Custom",
             "FixtureMissingError"]


class Enc32(world.BowEncoder):
    """Bag-of-words over VOCAB padded to 32 dims (the dimension of the reflection embedder), injected via ctx.enc."""

    def vec(self, text):
        v = super().vec(text)
        return v + [0.0] * (32 - len(v))


class FakeTime:
    """Stand-in for the `time` module as seen by orchestrator.core: a scripted, strictly increasing perf_counter."""

    def __init__(self, real, base=1000.0):
        self._real = real
        self.now = float(base)

    def perf_counter(self):
        self.now += 1e-6
        return self.now

    def __getattr__(self, name):
        return getattr(self._real, name)


@contextlib.contextmanager
def _patched(obj, name, value):
    d = vars(obj)
    had = name in d
    old = d.get(name)
    setattr(obj, name, value)
    try:
        yield
    finally:
        if had:
            setattr(obj, name, old)
        else:
            try:
                delattr(obj, name)
            except AttributeError:
                pass


_ENVK = ("CLEMATIS_LOG_DIR", "CLEMATIS_LOGS_DIR", "CLEMATIS_SNAPSHOT_DIR")


@contextlib.contextmanager
def _use(root):
    saved = {k: os.environ.get(k) for k in _ENVK}
    cwd = os.getcwd()
    os.environ["CLEMATIS_LOG_DIR"] = os.path.join(root, "logs")
    os.environ.pop("CLEMATIS_LOGS_DIR", None)
    os.environ["CLEMATIS_SNAPSHOT_DIR"] = os.path.join(root, "snap")
    os.chdir(os.path.join(root, "cwd"))
    try:
        yield
    finally:
        os.chdir(cwd)
        for k, v in saved.items():
            if v is None:
                os.environ.pop(k, None)
            else:
                os.environ[k] = v


def _copy_state(state):
    """Deep copy of an engine state. The stage caches living in the state hold thread locks; a copy gets fresh locks
    (registered once per worker process) so that the twin world starts from the same cache contents as the ON world."""
    import copyreg
    import threading

    for mk in (threading.RLock, threading.Lock):
        tp = type(mk())
        if tp not in copyreg.dispatch_table:
            copyreg.pickle(tp, (lambda mk_: (lambda _l: (mk_, ())))(mk))
    return copy.deepcopy(state)


def _subroot(base, name):
    r = os.path.join(base, name)
    for s in ("logs", "snap", "cwd", "fx"):
        os.makedirs(os.path.join(r, s))
    return r


def _mods():
    import importlib
    import clematis.engine.orchestrator as orch
    import clematis.engine.orchestrator.core as core
    reflmod = importlib.import_module("clematis.engine.stages.t3.reflect")
    logmod = importlib.import_module("clematis.engine.orchestrator.logging")
    iolog = importlib.import_module("clematis.io.log")
    llm = importlib.import_module("clematis.adapters.llm")
    return orch, core, reflmod, logmod, iolog, llm


def _ntok(s):
    return len((s or "").split())


# ------------------------------------------------------------------------------------------------ generators

_WEIRD = ["", " ", "Hello, World!", "Äpfel & Birnen — naïve café", "日本語 の テキスト", "emoji 😀 ok 👍🏽",
          "tabs\tand\nnew\r\nlines", "nb\u00a0sp\u2003em\u3000ideo", "İstanbul ǅ ß", "...!!!???", "a  b   c ",
          "\x1c fs \x1f us \x85 nel", "עברית RTL العربية", "don't-stop_me.now",
          "one two three four five six seven eight nine ten eleven twelve", "I am Qwen", "x", "ﬁn ½ ²",
          "a\u200bb\u2060c", "\ufeffbom", "apple pear", "  lead and trail  "]
_WORDS = ["apple", "Pear,", "kiwi!", "—", "de", "x1", "Ünï", "(a)", "b.c", "日本"]
# fields a custom stage's entry may carry besides text/tags/kind; none of them may leak into the written id / timestamp
_ENTRY_EXTRAS = [{}, {}, {"id": "custom-id"}, {"ts": "2001-02-03T04:05:06Z"}, {"owner": "world"}, {"id": "dup", "ts": "1999-01-01T00:00:00Z"},
                 {"vec_full": [0.25] * 32}, {"aux": {"importance": 2.0}}, {"slot": 7, "turn": "zz", "agent": "other"}]
_CHARS = st.one_of(st.sampled_from(list(" \t\n\u00a0\u2003\x1cab1é.,!-_")), st.characters(codec="utf-8"))
# words joined by ONE separator class each, mostly Unicode whitespace that is not ASCII: the token limit counts
# whitespace-separated words (str.split()), whatever character separates them
_SEPS = ["\u00a0", "\u2003", "\u3000", "\u2028", "\u0085", "\u2009", "\u202f", "\u1680", "\x1c", "\x1f", " ", "\t", "\n", "\u00a0 ", "\u2003\u3000"]
_PLAINWORDS = ["alpha", "beta", "gamma", "Pear", "x1", "Ünï", "日本", "de", "kiwi", "b"]


@st.composite
def _joined_words(draw):
    words = draw(st.lists(st.sampled_from(_PLAINWORDS), min_size=2, max_size=7))
    seps = draw(st.lists(st.sampled_from(_SEPS), min_size=len(words) - 1, max_size=len(words) - 1))
    return words[0] + "".join(sep + w for sep, w in zip(seps, words[1:]))


TEXTS = st.one_of(st.sampled_from(_WEIRD), st.lists(st.sampled_from(_WORDS), max_size=12).map(" ".join),
                  st.text(alphabet=_CHARS, max_size=30), _joined_words())
SHORT = st.one_of(st.sampled_from(["", "x", "a b", "a b c d e f", "Ünï ok", " pad ", "a\tb\nc"]),
                  st.lists(st.sampled_from(_WORDS), max_size=5).map(" ".join))


@st.composite
def _episodes(draw):
    ids = draw(st.lists(st.sampled_from(world.EP_IDS), max_size=5, unique=True))
    eps = []
    for eid in ids:
        vw = draw(st.sampled_from(["apple", "pear", "apple pear", "kiwi", "apple apple pear", None]))
        ep = {"id": eid, "owner": draw(st.sampled_from(["A", "B"])), "text": draw(TEXTS),
              "vec_full": None if vw is None else Enc32().vec(vw),
              "ts": world.iso_minus(world.NOW_ISO, draw(st.sampled_from([0, 3600, 86400, 6 * 86400])))}
        eps.append(ep)
    return eps


def _knobs(draw):
    return {
        "backend": draw(st.sampled_from(["rulebased", "rulebased", "llm"])),
        "tokens": draw(st.sampled_from([0, 1, 1, 2, 3, 5, 8, 128, 4096])),
        "ops": draw(st.sampled_from([0, 0, 1, 1, 2, 5, 1000, None])),
        "topk": draw(st.sampled_from([0, 1, 3, 3, 10])),
        "embed": draw(st.booleans()),
        "time_ms": draw(st.sampled_from([1, 5, 50, 6000, 10 ** 9, None])),
        "log": draw(st.sampled_from([True, True, False])),
    }


@st.composite
def _turn(draw):
    t = {"agent": draw(st.sampled_from(AGENTS)), "text": draw(st.sampled_from(QUERIES)),
         "utter": draw(st.one_of(st.none(), TEXTS, TEXTS)),
         "turn_id": draw(st.sampled_from(["seq", "seq", "seq", "str", "name"])),
         "allow": draw(st.sampled_from([True, True, True, True, False])),
         # the plan's request: state channel (True / explicit False / absent) x Plan.reflection on the plan OBJECT (see _flags)
         "flag": draw(st.sampled_from(["state", "state", "state", "plan", "plan", "none", "both", "state_false", "plan_state_false"])),
         "dry": draw(st.sampled_from([False, False, False, False, True])),
         # how a non-dry ctx says so: attribute absent, or explicitly False (the sequential batch driver sets it)
         "dry_attr": draw(st.sampled_from(["absent", "absent", "false"]))}
    t["kill"] = draw(st.sampled_from([False, True] if t["dry"] else [False, False, False, False, True]))
    t.update(_knobs(draw))
    # one focused scenario per turn (plus a "chaos" scenario drawing every fault independently)
    sc = draw(st.sampled_from(["plain", "plain", "plain", "plain", "raise", "fake", "fake", "fake", "timeout", "timeout", "write", "write", "tele",
                               "fixture", "noindex", "embed", "prefault", "prefault", "chaos"]))
    chaos = sc == "chaos"
    if sc == "fixture":
        t["backend"] = "llm"
    if sc in ("plain", "fake", "write", "tele") and draw(st.booleans()):
        t["ops"] = draw(st.sampled_from([1, 1, 2, 5]))
        t["tokens"] = draw(st.sampled_from([1, 2, 3, 5, 8, 128]))
    t["jump"] = (draw(st.sampled_from(["over", "over", "far"])) if sc == "timeout" else
                 draw(st.sampled_from(["none", "none", "under", "over", "far"] if chaos else ["none", "none", "under"])))
    mode = {"raise": "raise", "fake": "fake"}.get(sc, "real")
    if sc == "timeout" and draw(st.booleans()):
        mode = "fake"  # a custom stage (either result shape) that overruns the budget
    if sc == "write" or chaos:
        mode = draw(st.sampled_from(["real", "fake", "raise"] if chaos else ["real", "fake"]))
    if mode == "raise":
        t["compute"] = {"mode": "raise", "exc": draw(st.sampled_from(EXC_NAMES)), "when": draw(st.sampled_from(["before", "after"]))}
    elif mode == "fake":
        # a verbose custom reflect stage: up to 8 candidate entries (more than every finite cap but 1000), returned either
        # as the stage's frozen dataclass or as a plain mutable object (what the repo's own tests return), entries may
        # carry fields of their own (id / ts / owner / vector) that the writer must not take over into id or timestamp
        texts = draw(st.lists(SHORT, min_size=0 if chaos else 1, max_size=draw(st.sampled_from([2, 4, 8]))))
        t["compute"] = {"mode": "fake", "texts": texts, "shape": draw(st.sampled_from(["dataclass", "dataclass", "plain"])),
                        "extras": draw(st.lists(st.sampled_from(_ENTRY_EXTRAS), max_size=len(texts)))}
        if len(texts) > 5 and draw(st.booleans()):
            t["ops"] = 5  # the default cap, exceeded by the candidates
    else:
        t["compute"] = {"mode": "real"}
    t["site"] = draw(st.sampled_from(["module", "module", "orch"]))
    t["write"] = (draw(st.fixed_dictionaries({"exc": st.sampled_from(EXC_NAMES[:7]), "pattern": st.lists(st.booleans(), min_size=1, max_size=4)}))
                  if (sc == "write" or (chaos and draw(st.booleans()))) else None)
    if t["write"] is not None and not chaos and not any(t["write"]["pattern"]):
        t["write"]["pattern"][0] = True
    if sc == "write" and draw(st.sampled_from([False, False, False, True])):
        t["write"] = {"whole": t["write"]["exc"]}  # the writer entry point itself fails (not one index.add)
    if sc == "noindex":
        t["write"] = {"noindex": True}  # the state carries no memory_index for the writer
    # failure BEFORE the compute step proper (snippet extraction / bundle construction inside the gated helper)
    t["prefault"] = ({"site": draw(st.sampled_from(["snippets", "bundle"])), "exc": draw(st.sampled_from(EXC_NAMES[:7]))}
                     if (sc == "prefault" or (chaos and draw(st.sampled_from([False, False, True])))) else None)
    if t["prefault"] is not None and t["prefault"]["site"] == "snippets" and t["topk"] == 0:
        t["topk"] = 3  # the extraction is only reached for topk > 0
    t["embedfault"] = draw(st.sampled_from(EXC_NAMES[:7])) if sc == "embed" else None
    if sc == "embed":
        t["embed"] = True
    t["tele"] = (draw(st.fixed_dictionaries({"site": st.sampled_from(["inner", "outer", "deep"]), "exc": st.sampled_from(EXC_NAMES[:7])}))
                 if (sc == "tele" or (chaos and draw(st.booleans()))) else None)
    t["fixture"] = (draw(st.sampled_from(["absent", "empty", "garbage", "other", "blank"])) if sc == "fixture" else
                    draw(st.sampled_from(["ok", "absent", "other"])) if chaos else "ok")
    t["completion"] = draw(TEXTS)
    t["caches"] = draw(st.booleans())
    return t


@st.composite
def _fixture_flip_turns(draw):
    """Three LLM-backend turns that build the SAME reflection prompt (same agent, turn id, utterance, no snippets) while the
    fixtures file at one constant path goes ok -> missing -> ok: the adapter must look at the file as it is now."""
    t = draw(_turn())
    t.update({"allow": True, "flag": "state", "dry": False, "kill": False, "backend": "llm", "topk": 0,
              "tokens": draw(st.sampled_from([3, 8, 128])), "ops": draw(st.sampled_from([1, 2, 5])), "time_ms": None,
              "utter": draw(TEXTS) or "apple pear", "turn_id": 7, "jump": "none", "compute": {"mode": "real"},
              "write": None, "tele": None, "embedfault": None, "site": "module", "prefault": None})
    missing = draw(st.sampled_from(["absent", "other", "empty"]))
    return [dict(t, fixture="ok"), dict(t, fixture=missing), dict(t, fixture="ok", completion=draw(TEXTS) or "pear")]


@st.composite
def turn_cases(draw):
    graphs = {"g1": draw(world.graph_specs(max_nodes=4, max_edges=5, ids=["a", "b", "c", "ä"]))}
    # ctx objects: a fresh one per turn, or ONE object per agent that the driver keeps and updates between turns (what the
    # repo's own multi-turn tests do); memory_index (reflection writer) and mem_index (T2) the same object or two
    case = {"graphs": graphs, "eps": draw(_episodes()), "ctx_mode": draw(st.sampled_from(["fresh", "fresh", "per_agent", "per_agent"])),
            "split_index": draw(st.sampled_from([False, False, True]))}
    if draw(st.sampled_from([True, False, False, False])):
        case["turns"] = draw(_fixture_flip_turns())
        return case
    if case["ctx_mode"] == "per_agent":
        turns = draw(st.lists(_turn(), min_size=2, max_size=4))
        if draw(st.sampled_from([True, True, False])):
            for t in turns[1:]:
                t["agent"] = turns[0]["agent"]  # one ctx object sees several turns with different gates
    else:
        turns = draw(st.lists(_turn(), min_size=1, max_size=3))
    case["turns"] = turns
    return case


# ------------------------------------------------------------------------------------------------ execution of one turn


def _is_subsequence(part, full):
    it = iter(full)
    return all(any(x == y for y in it) for x in part)


def _positional_reference(writer, reflmod, ctx, cfg, entries):
    """(id, ts, stored text) per POSITION of `entries` from a fault-free write of the same candidates into an empty
    index (malformed candidates replaced by a well-formed placeholder so that every position is written)."""
    cand = [e if isinstance(e, dict) else {"text": f"placeholder {k}", "tags": ["reflection"], "kind": "summary"}
            for k, e in enumerate(entries)]
    idx = world.build_index([])
    writer.write_reflection_entries(ctx, {"memory_index": idx}, cfg, reflmod.ReflectionResult(summary="", memory_entries=cand, metrics={}))
    return [(e[0], e[3], e[2]) for e in world.index_digest(idx)["eps"]]


class _PlainResult:
    """What a custom reflect stage may return instead of the frozen dataclass: a plain object with the three attributes."""

    def __init__(self, summary, memory_entries, metrics):
        self.summary = summary
        self.memory_entries = memory_entries
        self.metrics = metrics


def _flags(t):
    """(value of state['_planner_reflection_flag'] or None = key absent, Plan.reflection of the plan object)."""
    return {"state": (True, False), "plan": (None, True), "none": (None, False), "both": (True, True),
            "state_false": (False, False), "plan_state_false": (False, True)}[t["flag"]]


def _requested(t):
    sflag, pflag = _flags(t)
    return bool(sflag) or bool(pflag)


class Spy:
    """Stage-callable spy around the real reflect(): counts calls, applies the scripted clock jump, injects
    compute faults / custom results, records what was produced."""

    def __init__(self, real, clock, jump_ms=0.0, compute=None, result_cls=None):
        self.real = real
        self.clock = clock
        self.jump_ms = jump_ms
        self.compute = compute or {"mode": "real"}
        self.result_cls = result_cls
        self.calls = 0
        self.produced = None  # list of raw entry texts of the returned result
        self.summary = None
        self.raised = None

    def __call__(self, bundle, cfg, embedder=None):
        self.calls += 1
        self.clock.now += self.jump_ms / 1000.0
        c = self.compute
        try:
            if c["mode"] == "raise" and c["when"] == "before":
                raise _exc_types()[c["exc"]]("injected compute failure")
            if c["mode"] == "fake":
                owner = str(getattr(bundle.ctx, "agent_id", "unknown"))
                ts = getattr(bundle.ctx, "now_iso", None) or getattr(bundle.ctx, "now", None)
                ents = [{"owner": owner, "ts": ts, "text": tx, "tags": ["reflection"], "kind": "summary"} for tx in c["texts"]]
                for k, ex in enumerate(c.get("extras") or []):
                    if k < len(ents):
                        ents[k].update(copy.deepcopy(ex))
                cls = _PlainResult if c.get("shape") == "plain" else self.result_cls
                res = cls(summary=(c["texts"][0] if c["texts"] else ""), memory_entries=ents, metrics={"backend": "custom"})
            else:
                res = self.real(bundle, cfg, embedder=embedder)
            if c["mode"] == "raise":
                raise _exc_types()[c["exc"]]("injected compute failure")
        except Exception as e:
            self.raised = type(e).__name__
            raise
        self.produced = [str((e or {}).get("text", "")) for e in (res.memory_entries or [])]
        self.entries = copy.deepcopy(list(res.memory_entries or []))
        self.summary = res.summary
        return res


def _cfg_over(t, allow, fx_path):
    o = {"t3": {"allow_reflection": bool(allow),
                "reflection": {"backend": t["backend"], "summary_tokens": t["tokens"], "topk_snippets": t["topk"],
                               "embed": t["embed"], "log": t.get("log", True)}},
         "scheduler": {"budgets": {"ops_reflection": t["ops"], "time_ms_reflection": t["time_ms"]}},
         "t4": {"enabled": not t.get("kill", False)}}
    if t["backend"] == "llm":
        o["t3"]["llm"] = {"fixtures": {"enabled": True, "path": fx_path}}
    if not t.get("caches", True):
        o["t1"] = {"cache": {"enabled": False}}
        o["t2"] = {"cache": {"enabled": False}}
    return o


def _turn_id(t, i):
    k = t["turn_id"]
    if k == "seq":
        return i
    if k == "str":
        return str(i)
    if k == "name":
        return f"t-{i}"
    return k  # explicit value (purity cases)


def _jump_ms(t):
    b = t["time_ms"] if t["time_ms"] is not None else 6000
    return {"none": 0.0, "under": float(max(0, b - 1)), "over": float(b + 1), "far": float(10 * b + 1000)}[t.get("jump", "none")]


def _ctx_for(eng, pool, t, cfg, tid, now_ms):
    """The ctx of this turn: a fresh object, or (pool given) the one object this agent's driver keeps across turns — the
    driver updates turn id, clock (now / now_ms), configuration and the dry-run marker in place; everything a turn stashed
    on the object stays there."""
    ctx = pool.get(t["agent"]) if pool is not None else None
    reused = ctx is not None
    if ctx is None:
        ctx = world.make_ctx(cfg, agent=t["agent"], turn_id=tid, now_ms=now_ms)
        if eng.encoder is not None:
            ctx.enc = eng.encoder
        if pool is not None:
            pool[t["agent"]] = ctx
    else:
        fresh = world.make_ctx(cfg, agent=t["agent"], turn_id=tid, now_ms=now_ms)
        ctx.turn_id, ctx.now_ms, ctx.now, ctx.cfg, ctx.config = tid, fresh.now_ms, fresh.now, cfg, cfg
    if t.get("dry"):
        ctx._dry_run_until_t4 = True
    elif t.get("dry_attr") == "false":
        ctx._dry_run_until_t4 = False
    elif hasattr(ctx, "_dry_run_until_t4"):
        del ctx._dry_run_until_t4
    return ctx, reused


def _engine_turn(eng, ctx, agent, text):
    """observe.Engine.turn with a caller-supplied ctx object."""
    from clematis.engine.orchestrator import Orchestrator

    if agent in eng.agents:
        eng.state["active_graphs"] = list(eng.agents[agent])
    rec = {"turn": ctx.turn_id, "agent": agent}
    with observe.capture_used(rec):
        try:
            res = Orchestrator().run_turn(ctx, eng.state, text)
            rec["line"] = res.line
            rec["exc"] = None
        except Exception as e:  # the caller decides whether raising is a violation
            rec["line"] = None
            rec["exc"] = f"{type(e).__name__}: {e}"
    rec["ctx"] = ctx
    eng.used.append(rec)
    return rec


def _idx_pair(state):
    """Digests of the two index slots of a state: 'memory_index' (reflection writer) and, when it is another object,
    'mem_index' (T2)."""
    a = state.get("memory_index")
    b = state.get("mem_index")
    return (world.index_digest(a) if a is not None else None,
            world.index_digest(b) if (b is not None and b is not a) else None)


def _run(eng, t, i, allow, faults, spy_compute, record_prompts=None, clock_base=1000.0, now_ms=None, pool=None):
    """Execute turn `t` (index i) on engine `eng`. Returns an observation dict."""
    orch, core, reflmod, logmod, iolog, llm = _mods()
    from clematis.engine.types import Plan  # noqa: F401
    from clematis.engine.orchestrator import reflection as writer
    import dataclasses
    import time as _time

    fx_path = os.path.join(eng.root, "fx", "fixtures.jsonl")
    cfg = eng.cfg(_cfg_over(t, allow, fx_path))
    idx = eng.state["memory_index"]
    pair0 = _idx_pair(eng.state)
    logs0 = eng.logs()
    snaps0 = eng.snaps()
    listing0 = set(eng.listing())
    clock = FakeTime(_time, base=clock_base)
    spy = Spy(reflmod.reflect, clock, jump_ms=(_jump_ms(t) if faults else 0.0), compute=spy_compute,
              result_cls=reflmod.ReflectionResult)
    obs = {"spy": spy, "add_calls": 0, "add_ok": 0, "tele_hits": 0, "pre_calls": 0, "pre_hits": 0, "whole_hits": 0}
    tid = _turn_id(t, i)
    ctx, reused = _ctx_for(eng, pool, t, cfg, tid, now_ms if now_ms is not None else world.NOW_MS + i * 1000)
    obs["ctx_reused"] = reused
    # a reused ctx that saw an open gate before (fixed finding reflection-stale-ctx-stash: what that turn stashed on the ctx
    # was written and logged again by every later closed-gate turn)
    obs["stale_stash"] = reused and t["agent"] in pool.get("__saw_compute__", ())
    with contextlib.ExitStack() as stack:
        stack.enter_context(_use(eng.root))
        stack.enter_context(_patched(core, "time", clock))
        if t.get("site", "module") == "orch" and faults:
            stack.enter_context(_patched(orch, "reflect", spy))
        else:
            stack.enter_context(_patched(reflmod, "reflect", spy))
        # the steps of the gated helper that precede the compute call: counted always ("nothing is computed" on a closed
        # gate), made to fail for the prefault scenario
        pf = t.get("prefault") if faults else None
        real_snip, real_bundle = core._safe_extract_snippets, core.ReflectionBundle

        def snip(*a, **kw):
            obs["pre_calls"] += 1
            if pf and pf["site"] == "snippets":
                obs["pre_hits"] += 1
                raise _exc_types()[pf["exc"]]("injected snippet extraction failure")
            return real_snip(*a, **kw)

        def bundle(*a, **kw):
            obs["pre_calls"] += 1
            if pf and pf["site"] == "bundle":
                obs["pre_hits"] += 1
                raise _exc_types()[pf["exc"]]("injected bundle failure")
            return real_bundle(*a, **kw)
        stack.enter_context(_patched(core, "_safe_extract_snippets", snip))
        stack.enter_context(_patched(core, "ReflectionBundle", bundle))
        if _flags(t)[1]:
            def delib(ctx, state, bundle):
                return dataclasses.replace(core.deliberate(bundle), reflection=True)
            stack.enter_context(_patched(orch, "t3_deliberate", delib))
        if t.get("utter") is not None:
            utter = t["utter"]
            stack.enter_context(_patched(orch, "t3_dialogue", lambda dialog_bundle, plan: utter))
        if record_prompts is not None:
            orig_gen = llm.FixtureLLMAdapter.generate

            def gen(self, prompt, max_tokens, temperature):
                record_prompts.append(prompt)
                return orig_gen(self, prompt, max_tokens=max_tokens, temperature=temperature)
            stack.enter_context(_patched(llm.FixtureLLMAdapter, "generate", gen))
        if faults and t.get("write") and t["write"].get("noindex"):
            saved_idx = eng.state.pop("memory_index")
            obs["noindex"] = True
            stack.callback(lambda: eng.state.__setitem__("memory_index", saved_idx))
        elif faults and t.get("write") and t["write"].get("whole"):
            wexc = _exc_types()[t["write"]["whole"]]

            def boom_w(*a, **kw):
                obs["whole_hits"] += 1
                raise wexc("injected writer failure")
            stack.enter_context(_patched(writer, "write_reflection_entries", boom_w))
        elif faults and t.get("write"):
            wexc = _exc_types()[t["write"]["exc"]]
            pat = t["write"]["pattern"]
            real_add = type(idx).add

            def add(*a, **kw):
                k = obs["add_calls"]
                obs["add_calls"] += 1
                if pat[k % len(pat)]:
                    raise wexc("injected index failure")
                ep = a[0] if a else dict(kw)
                real_add(idx, ep)
                obs["add_ok"] += 1
            idx.add = add
            stack.callback(lambda: idx.__dict__.pop("add", None))
        if faults and t.get("embedfault"):
            eexc = _exc_types()[t["embedfault"]]

            class _BadEmbed:
                def encode(self, texts):
                    obs["embed_hits"] = obs.get("embed_hits", 0) + 1
                    raise eexc("injected embedding failure")
            stack.enter_context(_patched(reflmod, "_EMBED_ADAPTER", _BadEmbed()))
        if faults and t.get("tele"):
            texc = _exc_types()[t["tele"]["exc"]]
            site = t["tele"]["site"]
            if site == "outer":
                def boom(*a, **kw):
                    obs["tele_hits"] += 1
                    raise texc("injected telemetry failure")
                stack.enter_context(_patched(core, "log_t3_reflection", boom))
            else:
                mod, name = (logmod, "append_jsonl") if site == "inner" else (iolog, "_append_jsonl_unbuffered")
                orig_w = getattr(mod, name)

                def w(filename, record, *a, **kw):
                    if os.path.basename(str(filename)) == REFL_LOG:
                        obs["tele_hits"] += 1
                        raise texc("injected telemetry failure")
                    return orig_w(filename, record, *a, **kw)
                stack.enter_context(_patched(mod, name, w))
        world.reset_engine_globals()
        r = _engine_turn(eng, ctx, t["agent"], t["text"])
    if pool is not None and spy.calls:
        pool.setdefault("__saw_compute__", set()).add(t["agent"])
    logs1 = eng.logs()
    delta = {}
    rewritten = []
    for k in sorted(set(logs0) | set(logs1)):
        a, b = logs0.get(k, b""), logs1.get(k, b"")
        if not b.startswith(a):
            rewritten.append(k)
        delta[k] = b[len(a):]
    pair1 = _idx_pair(eng.state)
    new, kept = [], True
    for d0, d1 in zip(pair0, pair1):
        if d0 is None or d1 is None:
            kept = kept and (d0 is None) == (d1 is None)
            continue
        n0 = len(d0["eps"])
        kept = kept and d1["eps"][:n0] == d0["eps"]
        new.extend(d1["eps"][n0:])
    obs.update({
        "exc": r["exc"], "line": r["line"], "ctx": r["ctx"], "rewritten": rewritten,
        "canon": {k: delta.get(k, b"") for k in observe.CANONICAL}, "refl_delta": delta.get(REFL_LOG, b""),
        "refl_file": [p for p in eng.listing() if os.path.basename(p) == REFL_LOG],
        # records appended per stream by this turn (every stream, not only the canonical ones) and files that appeared
        "lines": {k: v.count(b"\n") for k, v in delta.items() if v}, "files_new": sorted(set(eng.listing()) - listing0),
        "idx0": pair0, "idx1": pair1, "kept": kept, "new": new,
        "views": jsonable({"t1": r.get("t1"), "t2": r.get("t2"), "approved": r.get("approved"), "reasons": r.get("reasons"),
                           "apply": {k: (str(v).replace(eng.root, "<ROOT>") if isinstance(v, str) else v)
                                     for k, v in (r.get("apply") or {}).items()}}),
        "snaps": {k: v for k, v in eng.snaps().items() if snaps0.get(k) != v},  # files written / changed by this turn
        "snaps_gone": sorted(k for k in snaps0 if k not in eng.snaps()),
        "state": {"store": world.store_digest(eng.state["store"]), "version": eng.state.get("version_etag")},
        "state_keys": sorted(str(k) for k in eng.state.keys()),
    })
    return obs


def _closed_gate_oracle(o, where, case, ever_open, tw=None):
    def fail(msg, sig):
        raise Violation(msg, case, sig)

    if o["spy"].calls:
        raise Violation(f"{where}: gate closed but the reflection compute function was called {o['spy'].calls}x", case, "closed-gate-computed")
    if o["pre_calls"]:
        raise Violation(f"{where}: gate closed but {o['pre_calls']} step(s) of the reflection helper behind the gate (snippet extraction / "
                        f"bundle construction) were executed", case, "closed-gate-computed")
    if o["idx1"] != o["idx0"]:
        fail(f"{where}: gate closed but the memory index changed ({len(o['new'])} new entries: {[e[2] for e in o['new']]})"
             + (" [ctx object reused from an earlier turn]" if o.get("ctx_reused") else ""), "closed-gate-wrote")
    if o["refl_delta"]:
        fail(f"{where}: gate closed but t3_reflection.jsonl got {o['refl_delta'][:200]!r}"
             + (" [ctx object reused from an earlier turn]" if o.get("ctx_reused") else ""), "closed-gate-logged")
    if not ever_open and o["refl_file"]:
        fail(f"{where}: gate never open but {o['refl_file']} exists", "closed-gate-logged")
    if tw is not None:
        # 'nothing written or logged': the same records per stream and the same new files as the run with reflection off
        la = {k: v for k, v in o["lines"].items() if k != REFL_LOG}
        lb = {k: v for k, v in tw["lines"].items() if k != REFL_LOG}
        if la != lb:
            raise Violation(f"{where}: gate closed but the records appended per stream {la} differ from the reflection-off run {lb}",
                            case, "closed-gate-logged")
        if o["state_keys"] != tw["state_keys"]:
            raise Violation(f"{where}: gate closed but the state carries other keys than after the reflection-off run: "
                            f"{sorted(set(o['state_keys']) ^ set(tw['state_keys']))}", case, "closed-gate-wrote-state")
        fa = [f for f in o["files_new"] if os.path.basename(f) != REFL_LOG]
        fb = [f for f in tw["files_new"] if os.path.basename(f) != REFL_LOG]
        if fa != fb:
            raise Violation(f"{where}: gate closed but new files {fa} differ from the reflection-off run {fb}", case, "closed-gate-wrote-file")


def _same_as_twin(o, tw, where, case, with_snaps=True):
    if o["exc"] is not None:
        raise Violation(f"{where}: turn raised {o['exc']} while the same turn with reflection off completed", case, "turn-raises")
    if o["line"] != tw["line"]:
        raise Violation(f"{where}: utterance {o['line']!r} differs from reflection-off run {tw['line']!r}", case, "utterance-differs")
    if o["rewritten"]:
        raise Violation(f"{where}: earlier log records were rewritten: {o['rewritten']}", case, "logs-rewritten")
    for k in observe.CANONICAL:
        if o["canon"][k] != tw["canon"][k]:
            raise Violation(f"{where}: {k} differs from the reflection-off run:\n on ={o['canon'][k][:300]!r}\n off={tw['canon'][k][:300]!r}",
                            case, f"canonical-differs:{k}")
    if o["views"] != tw["views"]:
        raise Violation(f"{where}: T1/T2/T4/apply results differ from the reflection-off run", case, "views-differ")
    if with_snaps and (o["snaps"] != tw["snaps"] or o["snaps_gone"] != tw["snaps_gone"]):
        raise Violation(f"{where}: snapshot files differ from the reflection-off run", case, "snapshot-differs")
    if o["state"] != tw["state"]:
        raise Violation(f"{where}: graph store / version differ from the reflection-off run", case, "state-differs")


def _open_gate_oracle(o, t, where, case, expect_nothing, why):
    if not o["kept"]:
        raise Violation(f"{where}: pre-existing memory entries were modified", case, "index-rewritten")
    n_new = len(o["new"])
    spy = o["spy"]
    produced = len(spy.produced) if spy.produced is not None else 0
    if expect_nothing and n_new:
        raise Violation(f"{where}: {why} but {n_new} entries were written: {[e[2] for e in o['new']]}"
                        + (" [ctx object reused from an earlier turn]" if o.get("ctx_reused") else ""), case, f"wrote-on-{why.split()[0]}")
    if t["ops"] is not None and n_new > t["ops"]:
        raise Violation(f"{where}: {n_new} entries written with ops_reflection={t['ops']}", case, "ops-cap-exceeded")
    if n_new > produced:
        raise Violation(f"{where}: {n_new} entries written but the compute step produced {produced}", case, "wrote-more-than-produced")
    if t["compute"]["mode"] == "real":
        for e in o["new"]:
            if _ntok(e[2]) > t["tokens"]:
                raise Violation(f"{where}: written summary {e[2]!r} has {_ntok(e[2])} whitespace tokens > summary_tokens={t['tokens']}",
                                case, "token-limit-exceeded")


def check_turns(case, rec=None):
    orch, core, reflmod, logmod, iolog, llm = _mods()
    labels = []
    nontrivial = False
    per_agent = case.get("ctx_mode", "fresh") == "per_agent"
    with world.sandbox() as base:
        w = {"graphs": case["graphs"], "eps": case["eps"], "agents": {a: ["g1"] for a in AGENTS}}
        on = observe.Engine(w, _subroot(base, "on"), encoder=Enc32())
        if case.get("split_index"):
            on.state["memory_index"] = world.build_index(case["eps"])  # the writer's slot is not the index T2 reads
        tw = observe.Engine({"graphs": {}, "eps": []}, _subroot(base, "tw"), encoder=Enc32())
        pp = observe.Engine({"graphs": {}, "eps": []}, _subroot(base, "pp"), encoder=Enc32())
        on_pool, tw_pool = ({}, {}) if per_agent else (None, None)
        labels.append("ctx=" + ("per-agent-object" if per_agent else "fresh-per-turn"))
        labels.append("index=" + ("split" if case.get("split_index") else "shared"))
        ever_open = False
        for i, t in enumerate(case["turns"], 1):
            where = f"turn {i}"
            sflag, _pflag = _flags(t)
            if sflag is None:
                on.state.pop("_planner_reflection_flag", None)
            else:
                on.state["_planner_reflection_flag"] = sflag
            gate_open = bool(t["allow"] and _requested(t) and not t["dry"])
            now_ms = world.NOW_MS + i * 1000
            pre = _copy_state(on.state)
            # --- twin: the same turn from the same pre-state with reflection off
            tw.state = _copy_state(pre)
            otw = _run(tw, t, i, allow=False, faults=False, spy_compute=None, now_ms=now_ms, pool=tw_pool)
            if otw["exc"] is None:
                _closed_gate_oracle(otw, where + " (twin, allow_reflection=false)", case, ever_open=False)
            # --- llm recording pre-pass (empty fixture file): learns the prompt hash, is itself a missing-fixture case
            learnt = None
            if gate_open and t["backend"] == "llm" and t["compute"]["mode"] != "fake" and otw["exc"] is None:
                pp.state = _copy_state(pre)
                open(os.path.join(pp.root, "fx", "fixtures.jsonl"), "w").close()
                prompts = []
                opp = _run(pp, t, i, allow=True, faults=False, spy_compute=None, record_prompts=prompts, now_ms=now_ms)
                _same_as_twin(opp, otw, where + " (llm pre-pass, empty fixture file)", case, with_snaps=False)  # pp skips turns
                if opp["new"] or opp["idx1"] != opp["idx0"]:
                    raise Violation(f"{where} (llm pre-pass): fixture missing but the index changed: {[e[2] for e in opp['new']]}", case, "wrote-on-missing")
                labels.append("prepass:" + (opp["spy"].raised or "no-error"))
                if prompts:
                    learnt = llm._prompt_hash(prompts[-1])
            # --- fixture file for the ON world
            fxp = os.path.join(on.root, "fx", "fixtures.jsonl")
            if os.path.exists(fxp):
                os.unlink(fxp)
            fixture_ok = False
            if t["backend"] == "llm":
                decoy = {"prompt_hash": "0" * 64, "completion": "decoy text"}
                mode = t["fixture"]
                if mode != "absent":
                    with open(fxp, "w", encoding="utf-8") as f:
                        if mode == "garbage":
                            f.write("not json\n")
                        elif mode in ("ok", "blank") and learnt:
                            f.write(json.dumps(decoy) + "\n")
                            f.write(json.dumps({"prompt_hash": learnt, "completion": (t["completion"] if mode == "ok" else "")}) + "\n")
                            fixture_ok = mode == "ok"
                        elif mode != "empty":
                            f.write(json.dumps(decoy) + "\n")
            # --- ON world
            oon = _run(on, t, i, allow=t["allow"], faults=True, spy_compute=t["compute"], now_ms=now_ms, pool=on_pool)
            if otw["exc"] is not None:
                # the engine itself cannot run this turn (independent of reflection): not this property's business
                labels.append("engine-raises")
                if oon["exc"] is None:
                    labels.append("engine-raises-only-off")
                break
            _same_as_twin(oon, otw, where, case)
            tl = [f"backend={t['backend']}", f"flagvia={t['flag']}"]
            if oon["ctx_reused"]:
                tl.append("ctx-object-reused")
                if oon["stale_stash"]:
                    tl.append("ctx-object-reused:carries-earlier-result")
            if not gate_open:
                _closed_gate_oracle(oon, where, case, ever_open, tw=otw)
                why = ("allow=false" if not t["allow"] else ("noflag" if not _requested(t) else ("dry+kill" if t["kill"] else "dry")))
                tl.append("gate=closed:" + why)
                if oon["stale_stash"]:
                    tl.append("gate=closed-after-open-on-same-ctx")
                if oon["idx1"] != otw["idx1"]:
                    raise Violation(f"{where}: memory index differs from the reflection-off run on a closed gate", case, "closed-gate-wrote")
            else:
                ever_open = True
                spy = oon["spy"]
                c = t["compute"]
                b = t["time_ms"]
                jump = _jump_ms(t)
                timeout = b is not None and jump >= b + 1
                expect_nothing, why = False, ""
                if c["mode"] == "raise":
                    expect_nothing, why = True, "error injected at compute"
                elif oon["pre_hits"]:
                    expect_nothing, why = True, f"error injected before the compute step ({t['prefault']['site']})"
                elif oon["whole_hits"]:
                    expect_nothing, why = True, "error injected at the writer entry point"
                elif t["backend"] == "llm" and c["mode"] == "real" and t["fixture"] in ("absent", "empty", "garbage", "other"):
                    # the fixtures file as it is NOW does not hold this prompt: nothing may be written, whether or not the
                    # adapter noticed (a cached parse of an earlier file content must not be served)
                    expect_nothing, why = True, f"missing fixture (file {t['fixture']})"
                elif spy.raised is not None:
                    expect_nothing, why = True, ("missing fixture" if t["backend"] == "llm" and not fixture_ok else "error") + f" ({spy.raised}) at compute"
                elif timeout:
                    expect_nothing, why = True, f"timeout (elapsed {jump}ms > budget {b}ms)"
                elif spy.calls == 0:
                    expect_nothing, why = True, "error: compute never ran"
                _open_gate_oracle(oon, t, where, case, expect_nothing, why)
                n_new = len(oon["new"])
                injected = (c["mode"] == "raise" or (t["backend"] == "llm" and c["mode"] == "real" and not fixture_ok) or timeout
                            or (t["write"] is not None and (oon["add_calls"] > 0 or oon.get("noindex") or oon["whole_hits"] > 0))
                            or (t["tele"] is not None and oon["tele_hits"] > 0)
                            or oon.get("embed_hits", 0) > 0 or oon["pre_hits"] > 0)
                wrote_text = any(e[2] for e in oon["new"])
                if wrote_text or (injected and (spy.calls > 0 or oon["pre_hits"] > 0)):
                    nontrivial = True
                tl += ["gate=open", f"compute={c['mode']}", f"written={min(n_new, 2)}{'+' if n_new > 2 else ''}",
                       "ops=" + ("null" if t["ops"] is None else str(min(t["ops"], 2)) + ("+" if t["ops"] > 2 else "")),
                       "tokens=" + (str(t["tokens"]) if t["tokens"] <= 2 else "3+")]
                if c["mode"] == "fake":
                    tl.append("fake-result=" + c.get("shape", "dataclass"))
                    if any(c.get("extras") or []):
                        tl.append("fake-entries-carry-own-fields")
                if wrote_text:
                    tl.append("wrote-nonempty")
                    if any(_ntok(e[2]) == t["tokens"] for e in oon["new"]) and c["mode"] == "real":
                        tl.append("summary-at-limit")
                if spy.produced is not None and t["ops"] is not None and len(spy.produced) > t["ops"]:
                    tl.append("produced>ops")
                    if t["ops"] >= 5:
                        tl.append("produced>ops>=5")
                if c["mode"] == "raise":
                    tl.append(f"fault=compute:{c['exc']}")
                if spy.raised and c["mode"] != "raise":
                    tl.append(f"fault=real-raised:{spy.raised}")
                if t["backend"] == "llm" and c["mode"] == "real":
                    tl.append("fixture=" + (t["fixture"] if learnt else "unlearnt"))
                if timeout:
                    tl.append("fault=timeout")
                    if c["mode"] == "fake":
                        tl.append("fault=timeout:fake-" + c.get("shape", "dataclass"))
                elif t["jump"] == "under" and b is not None:
                    tl.append("clock=just-under-budget")
                if t["write"] is not None and oon["add_calls"]:
                    tl.append("fault=write" + (":partial" if oon["add_ok"] else ""))
                    ents = getattr(spy, "entries", None)
                    if oon["add_ok"] and ents and t["ops"] is not None and not case.get("split_index"):
                        from clematis.engine.orchestrator import reflection as writer
                        ref = _positional_reference(writer, reflmod, oon["ctx"], oon["ctx"].cfg, ents)
                        part = [(e[0], e[3], e[2]) for e in oon["new"]]
                        if not _is_subsequence(part, ref):
                            raise Violation(f"{where}: after a partial write failure the surviving entries {part} are not the entries the "
                                            f"fault-free write of the same candidates puts at their positions {ref}", case, "id-not-pure")
                        if len(ref) >= 2:
                            tl.append("fault=write:partial:ids-vs-fault-free")
                if oon["whole_hits"]:
                    tl.append("fault=write:entry-point")
                if oon["pre_hits"]:
                    tl.append("fault=before-compute:" + t["prefault"]["site"])
                if oon.get("noindex"):
                    tl.append("fault=write:no-index")
                    if n_new:
                        raise Violation(f"{where}: state has no memory_index but {n_new} entries appeared", case, "wrote-without-index")
                if oon.get("embed_hits"):
                    tl.append("fault=embedding")
                if t["tele"] is not None and oon["tele_hits"]:
                    tl.append("fault=telemetry:" + t["tele"]["site"])
                if t["kill"]:
                    tl.append("open+kill-switch")
                if t.get("dry_attr") == "false":
                    tl.append("open+dry-attr-explicit-false")
            labels.extend(tl)
    if rec is not None:
        rec.case(nontrivial=nontrivial, dig=digest(case) if nontrivial else None, labels=sorted(set(labels)),
                 sample=({"ctx_mode": case.get("ctx_mode", "fresh"),
                          "turns": [{k: t.get(k) for k in ("allow", "flag", "dry", "backend", "tokens", "ops", "compute", "jump", "write", "tele", "embedfault", "prefault")}
                                    for t in case["turns"]]} if nontrivial else None))


def sub_turns(rec, seed, shard, nshards, n=60, shrink=True):
    run_hypothesis(rec, seed, turn_cases(), lambda c: check_turns(c, rec), max_examples=n, shrink=shrink, name="turns")


# ------------------------------------------------------------------------------------------------ purity of id / ts


def _pure_vary(draw):
    """Everything a run may differ in WITHOUT changing (agent, turn, slot, text): none of it may show in id / timestamp."""
    return {"embed": draw(st.booleans()), "ops": draw(st.sampled_from([None, None, 5, 1000])),
            "flag": draw(st.sampled_from(["state", "state", "plan", "both", "plan_state_false"])),
            "site": draw(st.sampled_from(["module", "orch"])), "kill": draw(st.sampled_from([False, False, True])),
            "split": draw(st.sampled_from([False, False, True])), "shape": draw(st.sampled_from(["dataclass", "plain"])),
            "extras": draw(st.lists(st.sampled_from(_ENTRY_EXTRAS), max_size=3)),
            "dry_attr": draw(st.sampled_from(["absent", "false"])), "log": draw(st.booleans()),
            # only applied to runs with a custom stage (their text does not depend on retrieval or the token limit)
            "neps": draw(st.integers(0, 5)), "tokens": draw(st.sampled_from([None, 0, 1, 128])), "topk": draw(st.sampled_from([0, 3, 10]))}


@st.composite
def purity_cases(draw):
    base = {"agent": draw(st.sampled_from(AGENTS)), "turn_id": draw(st.sampled_from([1, 2, 7, "3", "t-9"])),
            "text": draw(st.sampled_from(QUERIES[:4])), "utter": draw(st.one_of(TEXTS, SHORT)),
            "now_ms": world.NOW_MS + draw(st.sampled_from([0, 1000, 86_400_000])),
            # custom stage candidates; the same text in several slots of one turn is the slot-only difference
            "fake": draw(st.one_of(st.none(), st.lists(SHORT, min_size=1, max_size=3), SHORT.map(lambda x: [x, x]), SHORT.map(lambda x: [x, x, x]))),
            "clock": 1000.0, "unrelated": 0, "engine": 0, "reuse_ctx": False, "vary": draw(_vary_st)}
    runs = [base]
    for _ in range(draw(st.integers(1, 4))):
        src = dict(draw(st.sampled_from(runs)))
        op = draw(st.sampled_from(["same", "same", "agent", "turn", "text", "now", "turnstr", "again", "again"]))
        src["clock"] = draw(st.sampled_from([5.0, 1000.0, 9e8]))
        src["unrelated"] = draw(st.integers(0, 3))
        src["vary"] = draw(_vary_st)
        if op == "again":
            # another turn with the same key on the SAME engine state (the index already holds the earlier entry), through a
            # new ctx object or the one the earlier run used
            src["reuse_ctx"] = draw(st.booleans())
        else:
            src["engine"] = len(runs)
            src["reuse_ctx"] = False
        if op == "agent":
            src["agent"] = draw(st.sampled_from([a for a in AGENTS if a != src["agent"]]))
        elif op == "turn":
            src["turn_id"] = draw(st.sampled_from([x for x in [1, 2, 7, "3", "t-9"] if str(x) != str(src["turn_id"])]))
        elif op == "turnstr" and isinstance(src["turn_id"], int):
            src["turn_id"] = str(src["turn_id"])
        elif op == "text":
            if src["fake"] is not None:
                src["fake"] = [x + " z" for x in src["fake"]]
            else:
                src["utter"] = (src["utter"] or "") + " zeta"
        elif op == "now":
            src["now_ms"] = src["now_ms"] + draw(st.sampled_from([1, 1000, 3_600_000]))
        runs.append(src)
    return {"graphs": {"g1": draw(world.graph_specs(max_nodes=3, max_edges=3, ids=["a", "b", "c"]))}, "eps": draw(_episodes()),
            "tokens": draw(st.sampled_from([1, 3, 8, 128])), "ops": draw(st.sampled_from([1, 2, 5])), "embed": draw(st.booleans()),
            "runs": runs}


_vary_st = st.composite(_pure_vary)()


def check_purity(case, rec=None):
    written = []  # (key, now_ms, id, ts, stored_text, run_index)
    engines, pools = {}, {}
    varied = set()
    with world.sandbox() as base:
        for j, rn in enumerate(case["runs"]):
            v = rn.get("vary") or {}
            fake = rn["fake"] is not None
            eid = rn.get("engine", j)
            eng = engines.get(eid)
            if eng is None:
                graphs = dict(case["graphs"])
                if rn["unrelated"] & 1:
                    graphs["g_unrelated"] = {"nodes": [{"id": "u", "label": "unrelated", "tags": []}], "edges": []}
                eps = case["eps"][: v["neps"]] if (fake and "neps" in v) else case["eps"]
                w = {"graphs": graphs, "eps": eps, "agents": {a: ["g1"] for a in AGENTS}}
                eng = engines[eid] = observe.Engine(w, _subroot(base, f"r{j}"), encoder=Enc32())
                pools[eid] = {}
                if v.get("split"):
                    eng.state["memory_index"] = world.build_index(eps)
                if rn["unrelated"] & 2:
                    eng.state["_unrelated_key"] = {"x": j}
                    with open(os.path.join(eng.root, "logs", "other.jsonl"), "w") as f:
                        f.write("{}\n")
            else:
                varied.add("same-engine-again" + ("+same-ctx-object" if (rn.get("reuse_ctx") and rn["agent"] in pools[eid]) else ""))
            ops = v.get("ops") or case["ops"]
            t = {"agent": rn["agent"], "text": rn["text"], "utter": rn["utter"], "turn_id": rn["turn_id"], "allow": True,
                 "flag": v.get("flag", "state"), "dry": False, "dry_attr": v.get("dry_attr", "absent"), "kill": v.get("kill", False),
                 "backend": "rulebased", "tokens": case["tokens"], "ops": ops, "topk": 3, "embed": v.get("embed", case["embed"]),
                 "time_ms": 6000, "caches": True, "log": v.get("log", True), "site": v.get("site", "module")}
            if fake and v.get("tokens") is not None:
                t["tokens"] = v["tokens"]
            if fake and "topk" in v:
                t["topk"] = v["topk"]
            sflag, _p = _flags(t)
            if sflag is None:
                eng.state.pop("_planner_reflection_flag", None)
            else:
                eng.state["_planner_reflection_flag"] = sflag
            comp = ({"mode": "real"} if not fake else
                    {"mode": "fake", "texts": list(rn["fake"]), "shape": v.get("shape", "dataclass"), "extras": list(v.get("extras") or [])})
            if not rn.get("reuse_ctx"):
                pools[eid].pop(rn["agent"], None)  # a new ctx object for this run (kept for a later run that reuses it)
            # faults=True only selects the patch site of the stage callable here (no fault field is set)
            o = _run(eng, t, 0, allow=True, faults=True, spy_compute=comp, clock_base=rn["clock"], now_ms=rn["now_ms"],
                     pool=pools[eid])
            if o["exc"] is not None:
                continue  # engine cannot run this world at all; nothing written to compare
            prod = o["spy"].produced or []
            if len(o["new"]) != min(len(prod), ops):
                continue  # slots cannot be attributed (only possible when writes were dropped)
            for slot, e in enumerate(o["new"]):
                written.append(((rn["agent"], str(rn["turn_id"]), slot, prod[slot]), rn["now_ms"], e[0], e[3], e[2], j))
            if fake and any(v.get("extras") or []):
                varied.add("entry-own-fields")
            for k in ("flag", "shape", "split", "kill", "site"):
                if k in v:
                    varied.add(f"{k}={v[k]}")
    same = diff = 0
    comps = set()
    for a in range(len(written)):
        for b in range(a + 1, len(written)):
            ka, na, ida, tsa, _, ja = written[a]
            kb, nb, idb, tsb, _, jb = written[b]
            if ka == kb:
                if ja != jb:
                    same += 1
                if ida != idb:
                    raise Violation(f"same (agent, turn, slot, text)={ka!r} but ids {ida!r} != {idb!r} (runs {ja},{jb})", case, "id-not-pure")
                if na == nb and tsa != tsb:
                    raise Violation(f"same (agent, turn, slot, text)={ka!r} and turn clock but ts {tsa!r} != {tsb!r}", case, "ts-not-pure")
            else:
                diff += 1
                d = [n for n, x, y in zip(("agent", "turn", "slot", "text"), ka, kb) if x != y]
                if len(d) == 1:
                    comps.add(d[0])
                if ida == idb:
                    raise Violation(f"different keys {ka!r} / {kb!r} share the id {ida!r}", case, "id-collision")
    if rec is not None:
        nt = same >= 1 and diff >= 1
        rec.case(nontrivial=nt, dig=digest(case) if nt else None,
                 labels=[f"entries={min(len(written), 6)}"] + (["same-key-pair"] if same else []) + [f"differs-only-in={c}" for c in sorted(comps)]
                 + ([f"varied:{x}" for x in sorted(varied)] if same else []),
                 sample=({"runs": [{k: r.get(k) for k in ("agent", "turn_id", "now_ms", "clock", "unrelated", "engine", "reuse_ctx")} for r in case["runs"]]} if nt else None))


def sub_purity(rec, seed, shard, nshards, n=60, shrink=True):
    run_hypothesis(rec, seed, purity_cases(), lambda c: check_purity(c, rec), max_examples=n, shrink=shrink, name="purity")


# ------------------------------------------------------------------------------------------------ unit level: reflect + writer

_WS = list(" \t\n\r\x0b\x0c\x1c\x1d\x1e\x1f\x85\u00a0\u1680\u2000\u2003\u2028\u2029\u202f\u205f\u3000")
_UTEXT = st.one_of(TEXTS, _joined_words(), st.text(alphabet=st.one_of(st.sampled_from(_WS), st.sampled_from(list("abcÄé1.,;!?-_'\"()\u200b\u0307")),
                                                      st.characters(codec="utf-8")), max_size=60))


@st.composite
def unit_cases(draw):
    k = _knobs(draw)
    k.update({"agent": draw(st.sampled_from(AGENTS)), "turn_id": draw(st.sampled_from([0, 1, 5, "7", "t-1"])),
              "utter": draw(_UTEXT), "snippets": draw(st.lists(_UTEXT, max_size=4)), "completion": draw(_UTEXT),
              "fixture": draw(st.sampled_from(["ok", "ok", "ok", "absent", "other", "blank"])),
              "extra": draw(st.lists(SHORT, max_size=draw(st.sampled_from([3, 3, 8])))),
              # where the writer finds its index (dict key / attribute / dict that also has T2's mem_index as another object)
              "wstate": draw(st.sampled_from(["dict", "object", "dict+mem_index"])),
              "ctx_iso": draw(st.sampled_from([True, True, False])),  # ctx.now_iso as run_turn sets it, or only now / now_ms
              "warm": draw(st.sampled_from([True, True, False])),  # the same bundle reflected under loose limits first
              # partial write failure: index.add fails for some candidates and not for others (pattern per add call), and
              # candidates at some positions are malformed (None / not a dict) -- the survivors keep their positional ids
              "wfault": draw(st.one_of(st.none(), st.fixed_dictionaries({
                  "pattern": st.one_of(st.just([True, False]), st.just([True, False, False]), st.lists(st.booleans(), min_size=1, max_size=5)),
                  "exc": st.sampled_from(EXC_NAMES[:7]), "malformed": st.lists(st.integers(0, 3), max_size=2, unique=True),
                  "bad": st.sampled_from([None, "not a dict", 7])}))),
              "extras": draw(st.lists(st.sampled_from(_ENTRY_EXTRAS), max_size=3))})
    return k


def check_unit(case, rec=None):
    orch, core, reflmod, logmod, iolog, llm = _mods()
    from clematis.engine.orchestrator import reflection as writer
    from clematis.engine.types import Plan
    from types import SimpleNamespace

    labels = [f"backend={case['backend']}"]
    if any(ch.isspace() and ord(ch) > 0x7f for ch in (case["utter"] or "").strip()) and len((case["utter"] or "").split()) > 1:
        labels.append("utter:words-joined-by-non-ascii-whitespace" + (":limit<=3" if 1 <= case["tokens"] <= 3 else ""))
    nontrivial = False
    with world.sandbox() as base:
        fxp = os.path.join(base, "fixtures.jsonl")
        t = dict(case, kill=False, caches=True)
        cfg = world.validated_cfg(_cfg_over(t, True, fxp))
        ctx = world.make_ctx(cfg, agent=case["agent"], turn_id=case["turn_id"], now_ms=world.NOW_MS)
        if case.get("ctx_iso", True):
            ctx.now_iso = core._iso_from_ms(world.NOW_MS)
        snippets = [s for s in case["snippets"] if s][: case["topk"]] if case["topk"] > 0 else []
        state = {"memory_index": world.build_index([])}
        bundle = reflmod.ReflectionBundle(ctx=ctx, state_view=state, plan=Plan(version="t3-plan-v1", reflection=True),
                                          utter=case["utter"], snippets=snippets)
        warm = bool(case.get("warm", False))
        loose = world.validated_cfg(_cfg_over(dict(t, tokens=4096, ops=1000, embed=True), True, fxp))
        if case["backend"] == "llm":
            open(fxp, "w").close()
            prompts = []
            orig_gen = llm.FixtureLLMAdapter.generate

            def gen(self, prompt, max_tokens, temperature):
                prompts.append(prompt)
                return orig_gen(self, prompt, max_tokens=max_tokens, temperature=temperature)
            with _patched(llm.FixtureLLMAdapter, "generate", gen):
                try:
                    reflmod.reflect(bundle, cfg)
                    raise Violation("llm backend returned a result with an empty fixture file", case, "llm-no-fixture-result")
                except Violation:
                    raise
                except Exception as e:
                    labels.append("prepass:" + type(e).__name__)
                tight_prompts = list(prompts)
                if warm:
                    try:
                        reflmod.reflect(bundle, loose)  # learns the prompt of the warm-up call
                    except Exception:
                        pass
            os.unlink(fxp)
            if case["fixture"] != "absent":
                with open(fxp, "w", encoding="utf-8") as f:
                    f.write(json.dumps({"prompt_hash": "0" * 64, "completion": "decoy"}) + "\n")
                    if tight_prompts and case["fixture"] in ("ok", "blank"):
                        f.write(json.dumps({"prompt_hash": llm._prompt_hash(tight_prompts[-1]),
                                            "completion": case["completion"] if case["fixture"] == "ok" else ""}) + "\n")
                    if warm and len(prompts) > len(tight_prompts):
                        f.write(json.dumps({"prompt_hash": llm._prompt_hash(prompts[-1]), "completion": case["completion"] or "warm up text"}) + "\n")
        if warm:
            # the SAME bundle reflected under the loosest limits first: whatever is memoised per text / prompt / path in the
            # process must not be served to the call under this case's limits
            try:
                wres = reflmod.reflect(bundle, loose)
                labels.append("warm-up:" + ("nonempty" if wres.summary else "empty"))
            except Exception as e:
                labels.append("warm-up:raises:" + type(e).__name__)
        res = None
        try:
            res = reflmod.reflect(bundle, cfg)
        except Exception as e:  # errors are allowed here (the orchestrator turns them into 'nothing written')
            labels.append("raises:" + type(e).__name__)
        if res is not None:
            ents = list(res.memory_entries or [])
            if case["ops"] is not None and len(ents) > case["ops"]:
                raise Violation(f"reflect produced {len(ents)} entries with ops_reflection={case['ops']}", case, "ops-cap-exceeded")
            if _ntok(res.summary) > case["tokens"]:
                raise Violation(f"summary {res.summary!r} has {_ntok(res.summary)} whitespace tokens > summary_tokens={case['tokens']}",
                                case, "token-limit-exceeded")
            for e in ents:
                if _ntok(e.get("text")) > case["tokens"]:
                    raise Violation(f"entry text {e.get('text')!r} exceeds summary_tokens={case['tokens']}", case, "token-limit-exceeded")
            # writer: cap again (result padded with extra entries, as a custom stage callable may return)
            more = [{"owner": case["agent"], "ts": None, "text": x, "tags": ["reflection"], "kind": "summary"} for x in case["extra"]]
            for k, ex in enumerate(case.get("extras") or []):
                if k < len(more):
                    more[k].update(copy.deepcopy(ex))
            padded = reflmod.ReflectionResult(summary=res.summary, metrics=dict(res.metrics or {}), memory_entries=ents + more)
            plain = [dict(e, **{k: None for k in ("id", "ts", "owner", "aux", "slot", "turn", "agent") if k in e}) for e in ents + more]
            got = []
            shapes = [case.get("wstate", "dict"), "object" if case.get("wstate", "dict") != "object" else "dict", "dict"]
            for n_w, shape in enumerate(shapes):
                idx_w, idx_other = world.build_index([]), world.build_index([])
                st8 = (SimpleNamespace(memory_index=idx_w) if shape == "object" else
                       {"memory_index": idx_w, "mem_index": idx_other} if shape == "dict+mem_index" else {"memory_index": idx_w})
                # third write: the same candidates without the fields they carried on their own (id / ts / owner ...)
                result_w = padded if n_w < 2 else reflmod.ReflectionResult(summary=res.summary, metrics={}, memory_entries=plain)
                try:
                    writer.write_reflection_entries(ctx, st8, cfg, result_w)
                except Exception as e:
                    labels.append("writer-raises:" + type(e).__name__)  # run_turn guards the call; allowed
                got.append(world.index_digest(idx_w)["eps"] + world.index_digest(idx_other)["eps"])
            labels.append("writer-state=" + shapes[0])
            wf = case.get("wfault")
            if wf:
                cand = copy.deepcopy(list(padded.memory_entries))
                for pos in wf["malformed"]:
                    if pos < len(cand):
                        cand[pos] = wf["bad"]
                try:
                    ref = _positional_reference(writer, reflmod, ctx, cfg, cand)
                except Exception:
                    ref = None  # the writer cannot run with this configuration at all (ops null): nothing to compare
                if ref is not None:
                    idx_f = world.build_index([])
                    calls = {"n": 0}
                    real_add = type(idx_f).add
                    fexc = _exc_types()[wf["exc"]]

                    def add(*a, **kw):
                        k = calls["n"]
                        calls["n"] += 1
                        if wf["pattern"][k % len(wf["pattern"])]:
                            raise fexc("injected index failure")
                        real_add(idx_f, a[0] if a else dict(kw))
                    idx_f.add = add
                    try:
                        writer.write_reflection_entries(ctx, {"memory_index": idx_f}, cfg,
                                                        reflmod.ReflectionResult(summary=res.summary, metrics={}, memory_entries=cand))
                    except Exception as e:
                        labels.append("writer-raises:" + type(e).__name__)
                    part = [(e[0], e[3], e[2]) for e in world.index_digest(idx_f)["eps"]]
                    if not _is_subsequence(part, ref):
                        raise Violation(f"after a partial write failure (add pattern {wf['pattern']}, malformed candidates at {wf['malformed']}) "
                                        f"the surviving entries {part} are not the entries the fault-free write of the same candidates "
                                        f"puts at their positions {ref}", case, "id-not-pure")
                    if part and len(part) < len(ref):
                        labels.append("partial-write:survivors-checked")
                        if part[0] != ref[0]:
                            labels.append("partial-write:first-slot-lost")
            new = got[0]
            if case["ops"] is not None and len(new) > case["ops"]:
                raise Violation(f"writer stored {len(new)} entries with ops_reflection={case['ops']}", case, "ops-cap-exceeded")
            if len(new) > len(padded.memory_entries):
                raise Violation("writer stored more entries than produced", case, "wrote-more-than-produced")
            for e in new[: len(ents)]:
                if _ntok(e[2]) > case["tokens"]:
                    raise Violation(f"stored summary {e[2]!r} exceeds summary_tokens={case['tokens']}", case, "token-limit-exceeded")
            if [(e[0], e[3]) for e in got[0]] != [(e[0], e[3]) for e in got[1]]:
                raise Violation(f"ids/ts differ between two writes of the same result into a {shapes[0]}- and a {shapes[1]}-shaped state: "
                                f"{got[0]} vs {got[1]}", case, "id-not-pure")
            if [(e[0], e[3]) for e in got[0]] != [(e[0], e[3]) for e in got[2]]:
                raise Violation(f"ids/ts depend on fields the candidate entries carry besides their text: {got[0]} vs {got[2]}", case, "id-not-pure")
            if len({e[0] for e in new}) != len(new):
                raise Violation(f"two slots share an id: {[e[0] for e in new]}", case, "id-collision")
            if res.summary:
                nontrivial = True
                labels.append("summary-nonempty")
                if _ntok(res.summary) == case["tokens"]:
                    labels.append("summary-at-limit")
            labels.append(f"stored={min(len(new), 3)}")
            if len(padded.memory_entries) > (case["ops"] if case["ops"] is not None else 99):
                labels.append("produced>ops")
    if rec is not None:
        rec.case(nontrivial=nontrivial, dig=digest(case) if nontrivial else None, labels=sorted(set(labels)),
                 sample=({k: case[k] for k in ("backend", "tokens", "ops", "utter")} if nontrivial else None))


def sub_unit(rec, seed, shard, nshards, n=300, shrink=True):
    run_hypothesis(rec, seed, unit_cases(), lambda c: check_unit(c, rec), max_examples=n, shrink=shrink, name="unit")


# ---------------------------------------------------------------- gate: the gated helper + writer called directly
# (the composition the repo's own reflection tests use), for state / ctx / plan shapes a full turn cannot carry

_PLAN_KINDS = ["Plan_true", "Plan_false", "Plan_false", "sns_true", "sns_false", "sns_noattr", "none"]


@st.composite
def gate_cases(draw):
    steps = []
    for _ in range(draw(st.integers(1, 5))):
        k = _knobs(draw)
        k["backend"] = "rulebased"
        mode = draw(st.sampled_from(["real", "real", "real", "fake", "fake", "raise"]))
        if mode == "fake":
            comp = {"mode": "fake", "texts": draw(st.lists(SHORT, max_size=draw(st.sampled_from([2, 8])))),
                    "shape": draw(st.sampled_from(["dataclass", "plain"])), "extras": []}
        elif mode == "raise":
            comp = {"mode": "raise", "exc": draw(st.sampled_from(EXC_NAMES[:7])), "when": draw(st.sampled_from(["before", "after"]))}
        else:
            comp = {"mode": "real"}
        k.update({"allow": draw(st.sampled_from([True, True, True, False])), "plan": draw(st.sampled_from(_PLAN_KINDS)),
                  "sflag": draw(st.sampled_from(["absent", "absent", "true", "true", "false", "none"])),
                  "dry": draw(st.sampled_from(["absent", "absent", "false", "true"])),
                  "cfg_at": draw(st.sampled_from(["ctx.cfg", "ctx.cfg", "ctx.config", "state"])),
                  "ctx": draw(st.sampled_from(["new", "new", "reuse"])),  # reuse: the object of the previous step
                  "agent": draw(st.sampled_from(AGENTS)), "turn_id": draw(st.sampled_from([0, 1, 5, "7", "t-1"])),
                  "utter": draw(TEXTS), "t2": draw(st.sampled_from(["dicts", "objects", "mixed", "empty", "mapping"])),
                  "snips": draw(st.lists(SHORT, max_size=4)), "compute": comp,
                  "jump": draw(st.sampled_from(["none", "none", "under", "over"]))})
        steps.append(k)
    return {"state": draw(st.sampled_from(["dict", "object"])), "steps": steps}


def check_gate(case, rec=None):
    from types import SimpleNamespace
    import time as _time
    orch, core, reflmod, logmod, iolog, llm = _mods()
    from clematis.engine.orchestrator import reflection as writer
    from clematis.engine.types import Plan

    labels = [f"state={case['state']}"]
    nontrivial = False
    idx = world.build_index([])
    state = {"memory_index": idx} if case["state"] == "dict" else SimpleNamespace(memory_index=idx)

    def sset(k, v):
        if isinstance(state, dict):
            state[k] = v
        else:
            setattr(state, k, v)

    def sdel(k):
        if isinstance(state, dict):
            state.pop(k, None)
        elif hasattr(state, k):
            delattr(state, k)

    ctx = None
    with world.sandbox() as base:
        for i, k in enumerate(case["steps"], 1):
            where = f"step {i}"
            cfg = world.validated_cfg(_cfg_over(dict(k, kill=False, caches=True), k["allow"], os.path.join(base, "fx.jsonl")))
            if ctx is None or k["ctx"] == "new":
                ctx = SimpleNamespace()
                reused = False
            else:
                reused = True
            ctx.turn_id, ctx.agent_id, ctx.now_ms = k["turn_id"], k["agent"], world.NOW_MS + i
            ctx.now_iso = core._iso_from_ms(ctx.now_ms)
            for a in ("cfg", "config"):
                if hasattr(ctx, a):
                    delattr(ctx, a)
            if k["cfg_at"] == "state":
                sset("cfg", cfg)  # ctx carries no configuration: the helper falls back to the state's
            else:
                setattr(ctx, k["cfg_at"].split(".")[1], cfg)  # a cfg an earlier step left on the state stays there (stale)
            if k["dry"] == "absent":
                if hasattr(ctx, "_dry_run_until_t4"):
                    del ctx._dry_run_until_t4
            else:
                ctx._dry_run_until_t4 = (k["dry"] == "true")
            if k["sflag"] == "absent":
                sdel("_planner_reflection_flag")
            else:
                sset("_planner_reflection_flag", {"true": True, "false": False, "none": None}[k["sflag"]])
            plan = {"Plan_true": Plan(version="t3-plan-v1", reflection=True), "Plan_false": Plan(version="t3-plan-v1"),
                    "sns_true": SimpleNamespace(ops=[], reflection=True), "sns_false": SimpleNamespace(ops=[], reflection=False),
                    "sns_noattr": SimpleNamespace(ops=[]), "none": None}[k["plan"]]
            hits = [{"id": f"h{j}", "text": s_, "score": 1.0} for j, s_ in enumerate(k["snips"])]
            t2 = {"dicts": SimpleNamespace(retrieved=hits), "objects": SimpleNamespace(retrieved=[SimpleNamespace(**h) for h in hits]),
                  "mixed": SimpleNamespace(retrieved=[h if j % 2 else SimpleNamespace(**h) for j, h in enumerate(hits)]),
                  "empty": SimpleNamespace(retrieved=[]), "mapping": {"k_returned": len(hits)}}[k["t2"]]
            requested = k["plan"] in ("Plan_true", "sns_true") or k["sflag"] == "true"
            gate_open = bool(k["allow"] and requested and k["dry"] != "true")
            clock = FakeTime(_time)
            spy = Spy(reflmod.reflect, clock, jump_ms=_jump_ms(k), compute=k["compute"], result_cls=reflmod.ReflectionResult)
            d0 = world.index_digest(idx)["eps"]
            res, helper_exc = None, None
            with _patched(core, "time", clock), _patched(reflmod, "reflect", spy):
                try:
                    res = core._run_reflection_if_enabled(ctx, state, plan, k["utter"], t2)
                except Exception as e:  # run_turn guards the helper; a failure here must only mean 'nothing written'
                    helper_exc = type(e).__name__
                if res is not None and getattr(res, "memory_entries", None):
                    try:
                        writer.write_reflection_entries(ctx, state, cfg, res)
                    except Exception as e:
                        labels.append("writer-raises:" + type(e).__name__)
            d1 = world.index_digest(idx)["eps"]
            new = d1[len(d0):]
            tl = [f"plan={k['plan']}", f"stateflag={k['sflag']}", f"dry={k['dry']}", f"cfg_at={k['cfg_at']}",
                  "ctx=" + ("reused" if reused else "new"), "gate=" + ("open" if gate_open else "closed")]
            if d1[: len(d0)] != d0:
                raise Violation(f"{where}: pre-existing memory entries were modified", case, "index-rewritten")
            if not gate_open:
                if spy.calls:
                    raise Violation(f"{where}: gate closed (allow={k['allow']}, plan={k['plan']}, state flag={k['sflag']}, dry={k['dry']}, "
                                    f"{case['state']}-shaped state, cfg at {k['cfg_at']}) but the compute function was called", case, "closed-gate-computed")
                if res is not None:
                    raise Violation(f"{where}: gate closed (allow={k['allow']}, plan={k['plan']}, state flag={k['sflag']}, dry={k['dry']}) but the "
                                    f"helper returned a result: {res!r}"[:600], case, "closed-gate-computed")
                if new:
                    raise Violation(f"{where}: gate closed but {len(new)} entries were written", case, "closed-gate-wrote")
            else:
                b = k["time_ms"]
                timeout = b is not None and _jump_ms(k) >= b + 1
                failed = spy.raised is not None or helper_exc is not None or spy.calls == 0
                if (failed or timeout) and res is not None and list(getattr(res, "memory_entries", None) or []):
                    raise Violation(f"{where}: {'error ' + str(spy.raised or helper_exc) if failed else 'timeout'} but the result handed to the "
                                    f"writer carries {len(res.memory_entries)} entries", case, "wrote-on-" + ("error" if failed else "timeout"))
                if (failed or timeout) and new:
                    raise Violation(f"{where}: {'error' if failed else 'timeout'} but {len(new)} entries were written", case,
                                    "wrote-on-" + ("error" if failed else "timeout"))
                if k["ops"] is not None and len(new) > k["ops"]:
                    raise Violation(f"{where}: {len(new)} entries written with ops_reflection={k['ops']}", case, "ops-cap-exceeded")
                if len(new) > len(spy.produced or []):
                    raise Violation(f"{where}: {len(new)} entries written but the compute step produced {len(spy.produced or [])}", case,
                                    "wrote-more-than-produced")
                if k["compute"]["mode"] == "real":
                    for e in new:
                        if _ntok(e[2]) > k["tokens"]:
                            raise Violation(f"{where}: written summary {e[2]!r} exceeds summary_tokens={k['tokens']}", case, "token-limit-exceeded")
                if new or failed or timeout:
                    nontrivial = True
                tl.append(f"written={min(len(new), 2)}")
                if timeout:
                    tl.append("fault=timeout")
                if spy.raised:
                    tl.append("fault=compute")
                if helper_exc:
                    tl.append("helper-raises:" + helper_exc)
            labels.extend(tl)
    if rec is not None:
        rec.case(nontrivial=nontrivial, dig=digest(case) if nontrivial else None, labels=sorted(set(labels)), n=len(case["steps"]),
                 sample=({"state": case["state"], "steps": [{x: k[x] for x in ("allow", "plan", "sflag", "dry", "cfg_at", "ctx", "ops")} for k in case["steps"]]}
                         if nontrivial else None))


def sub_gate(rec, seed, shard, nshards, n=200, shrink=True):
    run_hypothesis(rec, seed, gate_cases(), lambda c: check_gate(c, rec), max_examples=n, shrink=shrink, name="gate")


# ---------------------------------------------------------------- plan_flag: "requested by the plan" through the LLM planner

_PLANNER_OUTCOMES = ["valid_true", "valid_true", "valid_false", "valid_nokey", "fenced_true", "prose", "schema_invalid",
                     "adapter_error", "generate_raises", "adapter_none"]


@st.composite
def planflag_cases(draw):
    """2-6 planner calls on ONE engine state (LLM policy): the request a plan makes for reflection must be the request
    of THIS call's plan — a fallback plan (invalid output, adapter failure, backend inactive) requests nothing."""
    steps = [{"outcome": draw(st.sampled_from(_PLANNER_OUTCOMES)), "agent": draw(st.sampled_from(AGENTS)),
              "allow": draw(st.sampled_from([True, True, False]))} for _ in range(draw(st.integers(2, 6)))]
    # the policy state: an object (what the LLM policy stashes its flag on today) or a dict (the engine state run_turn passes)
    return {"steps": steps, "plan_items": draw(st.lists(st.sampled_from(["look", "edit graph", "ask", "say hi"]), max_size=3)),
            "state": draw(st.sampled_from(["object", "object", "dict"]))}


def check_planflag(case, rec=None):
    from types import SimpleNamespace
    import clematis.engine.stages.t3.policy as policy
    import clematis.engine.orchestrator.core as core
    from clematis.engine.stages.t3.policy import run_policy

    world.reset_engine_globals()
    as_dict = case.get("state", "object") == "dict"
    state = {"logs": []} if as_dict else SimpleNamespace(logs=[])
    labels = ["policy-state=" + ("dict" if as_dict else "object")]
    runs_after_fallback = 0
    prev_true = False
    for i, st_ in enumerate(case["steps"], 1):
        oc = st_["outcome"]
        body = {"plan": list(case["plan_items"]), "rationale": "because"}
        if oc in ("valid_true", "fenced_true"):
            body["reflection"] = True
        elif oc == "valid_false":
            body["reflection"] = False
        text = json.dumps(body)
        if oc == "fenced_true":
            text = "```json\n" + text + "\n```"
        elif oc == "prose":
            text = "Sure! Here is the plan: " + text
        elif oc == "schema_invalid":
            text = json.dumps({"plan": "not a list", "rationale": 5, "reflection": True})

        class _Adapter:
            def generate(self, prompt, max_tokens=256, temperature=0.2):
                if oc == "generate_raises":
                    raise RuntimeError("injected adapter failure")
                return SimpleNamespace(text=text)

        def _factory(cfg, oc=oc):
            if oc == "adapter_error":
                raise policy.LLMAdapterError("injected: fixture path not found")
            if oc == "adapter_none":
                return None
            return _Adapter()

        cfg = world.validated_cfg({"t3": {"backend": "llm", "allow_reflection": bool(st_["allow"])}})
        ctx = world.make_ctx(cfg, agent=st_["agent"], turn_id=i, now_ms=world.NOW_MS + i)
        with _patched(policy, "_get_llm_adapter_from_cfg", _factory):
            try:
                out = run_policy({"name": "llm", "meta": {}}, {}, cfg, ctx, state=state)
            except Exception as e:
                raise Violation(f"step {i} ({oc}): run_policy raised {type(e).__name__}: {e}", case, "planner-raises")
        requested = oc in ("valid_true", "fenced_true")
        is_fallback = oc in ("prose", "schema_invalid", "adapter_error", "generate_raises", "adapter_none")
        if is_fallback and list(out.get("plan") or []):
            raise Violation(f"step {i} ({oc}): fallback plan is not empty: {out!r}", case, "fallback-plan")
        flag = bool(state.get("_planner_reflection_flag", False) if as_dict else getattr(state, "_planner_reflection_flag", False))
        # the real gate, as run_turn consults it after Apply (plan object without a reflection attribute: LLM path)
        try:
            res = core._run_reflection_if_enabled(ctx, state, SimpleNamespace(ops=[]), "hello", SimpleNamespace(retrieved=[]))
        except Exception as e:
            raise Violation(f"step {i} ({oc}): reflection gate raised {type(e).__name__}: {e}", case, "gate-raises")
        ran = res is not None
        want = bool(requested and st_["allow"])
        # a dict-shaped policy state: only the safety direction (nothing requested -> no flag, no run); whether the policy can
        # stash its flag on a dict at all is not this property's business
        bad = ((flag and not requested) or (ran and not want)) if as_dict else (flag != requested or ran != want)
        if bad:
            if is_fallback and prev_true:
                runs_after_fallback += 1
            raise Violation(f"step {i}: planner outcome {oc!r} (plan requests reflection: {requested}, allow_reflection="
                            f"{st_['allow']}) but the gate input on the state is {flag} and reflection "
                            f"{'ran' if ran else 'did not run'}; earlier outcomes {[x['outcome'] for x in case['steps'][:i - 1]]}",
                            case, "plan-flag-stale" if (flag and not requested) else "plan-flag-lost")
        labels.append(f"planner={oc}")
        if is_fallback and prev_true:
            labels.append("fallback_after_requested")
        prev_true = requested
    if rec is not None:
        nt = "fallback_after_requested" in labels
        rec.case(nontrivial=nt, dig=digest(case) if nt else None, labels=sorted(set(labels)), n=len(case["steps"]),
                 sample={"outcomes": [x["outcome"] for x in case["steps"]]} if nt else None)


def sub_planflag(rec, seed, shard, nshards, n=150, shrink=True):
    run_hypothesis(rec, seed, planflag_cases(), lambda c: check_planflag(c, rec), max_examples=n, shrink=shrink, name="plan_flag")


SUBCHECKS = [
    # the heaviest sub-check first: its shards start at once, the light ones fill the remaining workers
    Sub("turns", sub_turns, quick={"n": 115}, thorough={"n": 1200}, shards_quick=4, shards_thorough=16,
        replay=lambda c: check_turns(c, None)),
    Sub("gate", sub_gate, quick={"n": 200}, thorough={"n": 2500}, shards_quick=2, shards_thorough=4,
        replay=lambda c: check_gate(c, None)),
    Sub("plan_flag", sub_planflag, quick={"n": 150}, thorough={"n": 3000}, shards_quick=2, shards_thorough=4,
        replay=lambda c: check_planflag(c, None)),
    Sub("purity", sub_purity, quick={"n": 40}, thorough={"n": 500}, shards_quick=2, shards_thorough=8,
        replay=lambda c: check_purity(c, None)),
    Sub("unit", sub_unit, quick={"n": 300}, thorough={"n": 5000}, shards_quick=2, shards_thorough=8,
        replay=lambda c: check_unit(c, None)),
]
